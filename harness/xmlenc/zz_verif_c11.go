//go:build verif

package xmlenc

import (
	"encoding/base64"

	"github.com/beevik/etree"
)

// Harness_C11_strip: stripPadding returns an error, or a strict prefix whose
// removed tail has the length named by the last byte (1..len).
func Harness_C11_strip() {
	n := verifChoose("len", verifParam("strip.maxlen", 18)+1)
	buf := verifNondetBytes("buf", n)
	out, err := stripPadding(append([]byte{}, buf...))
	verifReach("returned")
	if err != nil {
		verifAssert(out == nil, "C11/strip/error-has-no-output")
		return
	}
	verifReach("stripped")
	verifAssert(len(buf) > 0, "C11/strip/empty-buffer-rejected")
	if len(buf) == 0 {
		return
	}
	pad := int(buf[len(buf)-1])
	verifAssert(pad >= 1, "C11/strip/minimum-padding")
	verifAssert(pad <= len(buf), "C11/strip/padding-within-buffer")
	verifAssert(len(out) == len(buf)-pad, "C11/strip/removes-exactly-the-padding")
	verifAssert(len(out) < len(buf), "C11/strip/strict-prefix")
	for i := range out {
		verifAssert(out[i] == buf[i], "C11/strip/prefix-content")
	}
}

var verifAlgorithms = []string{
	"http://www.w3.org/2001/04/xmlenc#aes128-cbc",
	"http://www.w3.org/2001/04/xmlenc#aes192-cbc",
	"http://www.w3.org/2001/04/xmlenc#aes256-cbc",
	"http://www.w3.org/2001/04/xmlenc#tripledes-cbc",
	"http://www.w3.org/2009/xmlenc11#aes128-gcm",
	"http://www.w3.org/2001/04/xmlenc#rsa-oaep-mgf1p",
	"http://www.w3.org/2009/xmlenc11#rsa-oaep",
	"http://www.w3.org/2001/04/xmlenc#rsa-1_5",
}

// verifCipherValueLen: cipher-value lengths 0..4*16+1, boundary classes in the quick tier.
func verifCipherValueLen(tag string) int {
	if verifParam("lengths.all", 0) == 1 {
		return verifChoose(tag+".len", 4*16+2)
	}
	classes := []int{0, 1, 7, 8, 9, 11, 12, 13, 15, 16, 17, 24, 28, 31, 32, 33, 48, 64, 65}
	return classes[verifChoose(tag+".lenclass", len(classes))]
}

// A verifProfile restricts which dimensions of an encrypted element vary in one harness
// (the dimensions are independent in the code under test; varying all at once only multiplies paths).
type verifProfile struct {
	algs     []int // indices into verifAlgorithms
	oddAlgs  bool  // also: unknown algorithm text, Algorithm attribute absent, no / duplicated EncryptionMethod
	digests  bool  // vary the DigestMethod child
	certs    bool  // vary an embedded certificate
	fullLens bool  // every cipher-value length class, else a few
	depth    int   // nested EncryptedKey depth
	small    bool  // few keys, one cipher-value length (for the structural profile)
}

// verifEncryptedEl builds an EncryptedData / EncryptedKey element within the profile.
func verifEncryptedEl(tag string, name string, p verifProfile, depth int) *etree.Element {
	el := etree.NewElement(name)
	method := 0
	if p.oddAlgs {
		method = verifChoose(tag+".method", 3)
	}
	switch method {
	case 0:
		em := el.CreateElement("xenc:EncryptionMethod")
		nAlg := len(p.algs)
		if p.oddAlgs {
			nAlg += 2
		}
		ai := verifChoose(tag+".alg", nAlg)
		if ai < len(p.algs) {
			em.CreateAttr("Algorithm", verifAlgorithms[p.algs[ai]])
		} else if ai == len(p.algs) {
			em.CreateAttr("Algorithm", verifNondetString(tag+".algtext"))
		}
		if p.digests {
			switch verifChoose(tag+".digest", 4) {
			case 1:
				em.CreateElement("ds:DigestMethod").CreateAttr("Algorithm", "http://www.w3.org/2000/09/xmldsig#sha256")
			case 2:
				em.CreateElement("ds:DigestMethod").CreateAttr("Algorithm", verifNondetString(tag+".digesttext"))
			case 3:
				em.CreateElement("ds:DigestMethod")
			}
		}
	case 1:
		// no EncryptionMethod at all
	case 2:
		el.CreateElement("xenc:EncryptionMethod")
		el.CreateElement("xenc:EncryptionMethod")
	}
	if depth > 0 {
		nk := verifChoose(tag+".nkeys", 3)
		if nk > 0 {
			ki := el.CreateElement("ds:KeyInfo")
			for i := 0; i < nk; i++ {
				np := p
				if depth-1 == 0 {
					// leaves of the nesting: a well-formed or method-less key with or without data
					np = verifProfile{algs: []int{5, 0}, small: true}
				}
				ki.AddChild(verifEncryptedEl(tag+".k"+string(rune('0'+i)), "xenc:EncryptedKey", np, depth-1))
			}
		}
	} else if p.certs {
		switch verifChoose(tag+".cert", 4) {
		case 1:
			el.CreateElement("ds:KeyInfo").CreateElement("ds:X509Data").CreateElement("ds:X509Certificate").SetText(verifTestCertB64(0, 0))
		case 2:
			el.CreateElement("ds:KeyInfo").CreateElement("ds:X509Data").CreateElement("ds:X509Certificate").SetText(verifTestCertB64(0, 1))
		case 3:
			el.CreateElement("ds:KeyInfo").CreateElement("ds:X509Data").CreateElement("ds:X509Certificate").SetText("bm90IGEgY2VydA==")
		}
	}
	ndata := 4
	if p.small {
		ndata = 3
	}
	switch verifChoose(tag+".data", ndata) {
	case 0:
		n := 16
		if p.small {
			n = 32
		} else if p.fullLens {
			n = verifCipherValueLen(tag)
		} else {
			few := []int{0, 1, 16, 17, 32}
			n = few[verifChoose(tag+".fewlens", len(few))]
		}
		el.CreateElement("xenc:CipherData").CreateElement("xenc:CipherValue").SetText(base64.StdEncoding.EncodeToString(verifNondetBytes(tag+".cv", n)))
	case 1:
		// text that is not base64 of anything: wrong alphabet, or a length no encoder produces (1 or 5 characters, stray padding)
		bad := []string{"%%% not base64 %%%", "A", "QUJDR", "QQ=", "=", "QUJD\n R"}
		if p.small {
			bad = bad[:1] // the structural profile varies the tree, not the text
		}
		el.CreateElement("xenc:CipherData").CreateElement("xenc:CipherValue").SetText(bad[verifChoose(tag+".badtext", len(bad))])
	case 2:
		el.CreateElement("xenc:CipherData")
	}
	return el
}

func verifAnyKey(tag string) interface{} {
	switch verifChoose(tag+".kind", 5) {
	case 0:
		sizes := []int{0, 8, 16, 24, 32, 33}
		return verifNondetBytes(tag+".bytes", sizes[verifChoose(tag+".size", len(sizes))])
	case 1:
		return verifTestSigner(0, 0)
	case 2:
		return verifTestSigner(0, 1)
	case 3:
		return nil
	}
	return "a string is not a key"
}

func verifDecryptTotal(p verifProfile) {
	var drawn []byte
	calls := 0
	RandReader = verifRandReader{&drawn, &calls}
	el := verifEncryptedEl("e", "xenc:EncryptedData", p, p.depth)
	var key interface{}
	if p.small {
		switch verifChoose("key.kind", 3) {
		case 0:
			key = verifNondetBytes("key.bytes", 16)
		case 1:
			key = verifTestSigner(0, 0)
		}
	} else {
		key = verifAnyKey("key")
	}
	out, err := Decrypt(key, el)
	verifReach("returned")
	if err != nil {
		verifReach("rejected")
		verifAssert(out == nil, "C11/total/error-has-no-plaintext")
	} else {
		verifReach("decrypted")
	}
}

// Harness_C11_block: every block cipher x every cipher-value length class x every key kind.
func Harness_C11_block() {
	verifDecryptTotal(verifProfile{algs: []int{0, 1, 2, 3, 4}, fullLens: true})
}

// Harness_C11_rsa: the RSA key transports x digest methods x embedded certificates x key kinds.
func Harness_C11_rsa() {
	verifDecryptTotal(verifProfile{algs: []int{5, 6, 7}, digests: true, certs: true})
}

// Harness_C11_shape: missing / duplicated / unknown algorithm identifiers and nested or repeated encrypted keys.
func Harness_C11_shape() {
	verifDecryptTotal(verifProfile{algs: []int{0, 5}, oddAlgs: true, small: true, depth: verifParam("depth", 1)})
}

// Harness_C11_padding: a cipher value that decrypts (under the right key) to arbitrary blocks - so the
// padding byte the decrypter sees is arbitrary - yields plaintext or an error, never a panic, and when it
// yields plaintext the plaintext is the decrypted text minus a padding of 1..block-size bytes.
func Harness_C11_padding() {
	alg := verifChoose("alg", 4)
	keySizes := []int{16, 24, 32, 24}
	bs := 16
	if alg == 3 {
		bs = 8
	}
	key := verifNondetBytes("key", keySizes[alg])
	iv := verifNondetBytes("iv", bs)
	nblocks := 1 + verifChoose("nblocks", verifParam("blocks.max", 2))
	pt := verifNondetBytes("pt", nblocks*bs)
	cv := verifCBCEncrypt(alg, key, iv, pt)
	el := etree.NewElement("xenc:EncryptedData")
	el.CreateElement("xenc:EncryptionMethod").CreateAttr("Algorithm", verifAlgorithms[alg])
	el.CreateElement("xenc:CipherData").CreateElement("xenc:CipherValue").SetText(base64.StdEncoding.EncodeToString(cv))
	out, err := Decrypt(key, el)
	verifReach("returned")
	if err != nil {
		verifReach("rejected")
		return
	}
	verifReach("decrypted")
	pad := int(pt[len(pt)-1])
	verifAssert(pad >= 1, "C11/padding/minimum-padding")
	verifAssert(pad <= len(pt), "C11/padding/padding-within-plaintext")
	verifAssert(len(out) == len(pt)-pad, "C11/padding/removes-exactly-the-padding")
	for i := range out {
		verifAssert(out[i] == pt[i], "C11/padding/plaintext-is-the-decrypted-prefix")
	}
}

// Harness_C11_certmatch: a key genuinely wrapped to the recipient's RSA public key (which needs no
// secret) whose embedded certificate is then replaced: the recipient's own certificate, another RSA
// certificate, an ECDSA or Ed25519 certificate, or text that is no certificate. Decryption with the
// recipient's private key succeeds only when the embedded certificate is the recipient's.
func Harness_C11_certmatch() {
	var drawn []byte
	calls := 0
	RandReader = verifRandReader{&drawn, &calls}
	ti := []int{0, 6}[verifChoose("transport", 2)] // rsa-oaep-mgf1p, rsa-1_5
	e := verifTransport(ti)
	e.BlockCipher = AES128CBC
	p := verifNondetBytes("p", 16)
	el, err := e.Encrypt(verifTestCert(0, 0), append([]byte{}, p...), nil)
	if err != nil {
		return
	}
	certEl := el.FindElement("./KeyInfo/EncryptedKey/KeyInfo/X509Data/X509Certificate")
	verifAssert(certEl != nil, "C11/certmatch/encrypter-embeds-a-certificate")
	if certEl == nil {
		return
	}
	which := verifChoose("embedded", 5)
	switch which {
	case 0: // left as produced: the recipient's certificate
	case 1:
		certEl.SetText(verifTestCertB64(0, 1))
	case 2:
		certEl.SetText(verifTestCertB64(1, 0))
	case 3:
		certEl.SetText(verifTestCertB64(2, 0))
	case 4:
		certEl.SetText("bm90IGEgY2VydA==")
	}
	out, derr := Decrypt(verifTestSigner(0, 0), el)
	verifReach("returned")
	if derr != nil {
		verifReach("rejected")
		verifAssert(which != 0, "C11/certmatch/own-certificate-is-accepted")
		return
	}
	verifReach("decrypted")
	verifAssert(which == 0, "C11/certmatch/mismatched-certificate-is-rejected")
	verifAssert(verifBytesEqual(out, p), "C11/certmatch/plaintext")
}
