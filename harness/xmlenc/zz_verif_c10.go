//go:build verif

package xmlenc

// Harness_C10_padding: stripPadding(appendPadding(p, bs)) == p for every p of
// length n (case-split) and bs in {8,16}.
func Harness_C10_padding() {
	bs := 8
	if verifNondetBool("bs16") {
		bs = 16
	}
	n := verifNondetInt("n")
	verifAssume(n >= 0 && n <= 4*bs+1)
	p := verifNondetBytes("p", n)
	padded := appendPadding(append([]byte{}, p...), bs)
	verifAssert(len(padded)%bs == 0, "C10/padding/padded-is-block-multiple")
	verifAssert(len(padded) > len(p), "C10/padding/at-least-one-pad-byte")
	out, err := stripPadding(padded)
	verifReach("stripped")
	verifAssert(err == nil, "C10/padding/strip-accepts-own-padding")
	if err == nil {
		verifAssert(len(out) == len(p), "C10/padding/roundtrip-length")
		for i := range p {
			verifAssert(out[i] == p[i], "C10/padding/roundtrip-content")
		}
	}
}
