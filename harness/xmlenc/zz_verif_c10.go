//go:build verif

package xmlenc

import "encoding/base64"

// Harness_C10_padding: stripPadding(appendPadding(p, bs)) == p for every p of
// length n (case-split) and bs in {8,16}.
func Harness_C10_padding() {
	bs := 8
	if verifNondetBool("bs16") {
		bs = 16
	}
	n := verifNondetInt("n")
	verifAssume(n >= 0 && n <= 4*bs+1)
	p := verifNondetBytes("p", n)
	padded := appendPadding(append([]byte{}, p...), bs)
	verifAssert(len(padded)%bs == 0, "C10/padding/padded-is-block-multiple")
	verifAssert(len(padded) > len(p), "C10/padding/at-least-one-pad-byte")
	out, err := stripPadding(padded)
	verifReach("stripped")
	verifAssert(err == nil, "C10/padding/strip-accepts-own-padding")
	if err == nil {
		verifAssert(len(out) == len(p), "C10/padding/roundtrip-length")
		for i := range p {
			verifAssert(out[i] == p[i], "C10/padding/roundtrip-content")
		}
	}
}

// verifLengths: the plaintext lengths of the quick tier (boundaries) or every length 0..4*bs+1.
func verifPlaintextLen(bs int) int {
	if verifParam("lengths.all", 0) == 1 {
		n := verifChoose("len", 4*bs+2)
		return n
	}
	switch verifChoose("lenclass", 7) {
	case 0:
		return 0
	case 1:
		return 1
	case 2:
		return bs - 1
	case 3:
		return bs
	case 4:
		return bs + 1
	case 5:
		return 4 * bs
	}
	return 4*bs + 1
}

// Harness_C10_direct: for every block cipher and a key of the right size,
// Decrypt(key, Encrypt(key, p)) == p, with supplied and library-generated nonces.
func Harness_C10_direct() {
	var drawn []byte
	calls := 0
	RandReader = verifRandReader{&drawn, &calls}
	ci := verifChoose("cipher", len(verifBlockCiphers))
	bc := verifBlockCiphers[ci]
	n := verifPlaintextLen(verifBlockSize(ci))
	p := verifNondetBytes("p", n)
	key := verifNondetBytes("key", bc.KeySize())
	var nonce []byte
	if verifChoose("nonce", 2) == 1 {
		nonce = verifNondetBytes("nonce", 12)
	}
	el, err := bc.Encrypt(key, append([]byte{}, p...), nonce)
	if err != nil {
		// only the random source may fail
		verifAssert(calls > 0, "C10/direct/"+verifBlockCipherNames[ci]+"/encrypt-fails-only-on-random-source-failure")
		verifReach("encrypt-failed")
		return
	}
	verifReach("encrypted")
	out, err := Decrypt(key, el)
	verifAssert(err == nil, "C10/direct/"+verifBlockCipherNames[ci]+"/decrypts-own-ciphertext")
	if err == nil {
		verifReach("decrypted")
		verifAssert(verifBytesEqual(out, p), "C10/direct/"+verifBlockCipherNames[ci]+"/roundtrip")
	}
}

var verifTransportNames = []string{"oaep-sha1", "oaep-sha256", "oaep-sha512", "oaep-ripemd160", "oaep11-sha256", "oaep11-sha512", "pkcs1v15"}

func verifTransport(i int) RSA {
	switch i {
	case 0:
		e := OAEP()
		e.DigestMethod = &SHA1
		return e
	case 1:
		e := OAEP()
		e.DigestMethod = &SHA256
		return e
	case 2:
		e := OAEP()
		e.DigestMethod = &SHA512
		return e
	case 3:
		e := OAEP()
		e.DigestMethod = &RIPEMD160
		return e
	case 4:
		return OAEP_SHA256()
	case 5:
		return OAEP_SHA512()
	}
	return PKCS1v15()
}

// Harness_C10_transport: the same through every RSA key transport, to the
// certificate of the key that decrypts.
func Harness_C10_transport() {
	var drawn []byte
	calls := 0
	RandReader = verifRandReader{&drawn, &calls}
	ci := verifChoose("cipher", len(verifBlockCiphers))
	ti := verifChoose("transport", len(verifTransportNames))
	e := verifTransport(ti)
	e.BlockCipher = verifBlockCiphers[ci]
	n := verifPlaintextLen(verifBlockSize(ci))
	p := verifNondetBytes("p", n)
	var nonce []byte
	if verifChoose("nonce", 2) == 1 {
		nonce = verifNondetBytes("nonce", 12)
	}
	name := verifTransportNames[ti] + "+" + verifBlockCipherNames[ci]
	el, err := e.Encrypt(verifTestCert(0, 0), append([]byte{}, p...), nonce)
	if err != nil {
		verifAssert(calls > 0, "C10/transport/"+name+"/encrypt-fails-only-on-random-source-failure")
		verifReach("encrypt-failed")
		return
	}
	verifReach("encrypted")
	out, err := Decrypt(verifTestSigner(0, 0), el)
	verifAssert(err == nil, "C10/transport/"+name+"/decrypts-own-ciphertext")
	if err == nil {
		verifReach("decrypted")
		verifAssert(verifBytesEqual(out, p), "C10/transport/"+name+"/roundtrip")
	}
}

// Harness_C08_fresh: with a random source that may return a short read on any one of its first calls
// (io.Reader allows that), the content-encryption key the recipient unwraps and the IV in front of the
// cipher text consist entirely of bytes drawn from the source in this call.
func Harness_C08_fresh() {
	var drawn []byte
	calls := 0
	RandReader = verifRandReader{&drawn, &calls}
	e := OAEP()
	e.BlockCipher = AES128CBC
	e.DigestMethod = &SHA1
	p := verifNondetBytes("p", 16)
	el, err := e.Encrypt(verifTestCert(0, 0), append([]byte{}, p...), nil)
	if err != nil {
		return
	}
	verifReach("encrypted")
	keyEl := el.FindElement("./KeyInfo/EncryptedKey")
	verifAssert(keyEl != nil, "C08/fresh/encrypted-key-present")
	if keyEl == nil {
		return
	}
	k, kerr := Decrypt(verifTestSigner(0, 0), keyEl)
	verifAssert(kerr == nil, "C08/fresh/content-key-recoverable")
	if kerr == nil {
		verifAssert(len(k) == 16, "C08/fresh/content-key-is-128-bits")
		verifAssert(verifRun(drawn, k), "C08/fresh/content-key-is-drawn-from-the-random-source")
	}
	cv := el.FindElement("./CipherData/CipherValue")
	verifAssert(cv != nil, "C08/fresh/cipher-value-present")
	if cv == nil {
		return
	}
	raw, berr := base64.StdEncoding.DecodeString(cv.Text())
	verifAssert(berr == nil && len(raw) >= 32, "C08/fresh/cipher-value-has-iv-and-blocks")
	if berr == nil && len(raw) >= 32 {
		verifAssert(verifRun(drawn, raw[:16]), "C08/fresh/iv-is-drawn-from-the-random-source")
	}
}

// verifRun: needle occurs as a contiguous run in hay (both short).
func verifRun(hay, needle []byte) bool {
	if len(needle) == 0 || len(needle) > len(hay) {
		return false
	}
	r := false
	for i := 0; i+len(needle) <= len(hay); i++ {
		m := true
		for j := range needle {
			m = verifAnd(m, hay[i+j] == needle[j])
		}
		r = verifOr(r, m)
	}
	return r
}
