//go:build verif

package xmlenc

// verifRandReader is the random source handed to the package: arbitrary bytes
// (solver variables), remembered so that oracles can tell where a byte came from.
type verifRandReader struct {
	drawn *[]byte
	calls *int
}

var verifShortAt int

type verifRandErr struct{}

func (verifRandErr) Error() string { return "verif: random source failed" }

func (r verifRandReader) Read(p []byte) (int, error) {
	*r.calls++
	if verifParam("rand.mayfail", 1) == 1 && verifNondetBool("rand.fail") {
		return 0, verifRandErr{}
	}
	// an io.Reader may return fewer bytes than asked for without an error (one call, chosen among the first
	// rand.short.maxcall calls, to bound the paths)
	n := len(p)
	if verifParam("rand.short", 0) == 1 && *r.calls == 1 {
		verifShortAt = 1 + verifChoose("rand.short.at", verifParam("rand.short.maxcall", 1))
	}
	if verifParam("rand.short", 0) == 1 && *r.calls == verifShortAt && len(p) > 1 {
		switch verifChoose("rand.short", 3) {
		case 1:
			n = 1
		case 2:
			n = len(p) / 2
		}
	}
	for i := 0; i < n; i++ {
		b := verifNondetByte("rand.byte")
		p[i] = b
		*r.drawn = append(*r.drawn, b)
	}
	return n, nil
}

func verifBytesEqual(a, b []byte) bool {
	if len(a) != len(b) {
		return false
	}
	r := true
	for i := range a {
		r = verifAnd(r, a[i] == b[i])
	}
	return r
}

var verifBlockCiphers = []BlockCipher{AES128CBC, AES192CBC, AES256CBC, TripleDES, AES128GCM}
var verifBlockCipherNames = []string{"aes128-cbc", "aes192-cbc", "aes256-cbc", "tripledes-cbc", "aes128-gcm"}

func verifBlockSize(i int) int {
	if i == 3 {
		return 8
	}
	return 16
}
