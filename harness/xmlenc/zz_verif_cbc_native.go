//go:build verif

package xmlenc

import (
	"crypto/aes"
	"crypto/cipher"
	"crypto/des"
)

func verifCBCEncrypt(alg int, key []byte, iv []byte, blocks []byte) []byte {
	var b cipher.Block
	var err error
	if alg == 3 {
		b, err = des.NewTripleDESCipher(key)
	} else {
		b, err = aes.NewCipher(key)
	}
	if err != nil || len(iv) != b.BlockSize() || len(blocks)%b.BlockSize() != 0 {
		verifAssume(false)
	}
	out := make([]byte, len(blocks))
	cipher.NewCBCEncrypter(b, iv).CryptBlocks(out, blocks)
	return append(append([]byte{}, iv...), out...)
}
