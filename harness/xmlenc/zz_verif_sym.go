//go:build verif

package xmlenc

// Symbolic-side declarations: intercepted by the encoder (no bodies).

func verifNondetInt(tag string) int
func verifNondetBool(tag string) bool
func verifNondetByte(tag string) byte
func verifNondetString(tag string) string
func verifNondetBytes(tag string, n int) []byte
func verifAssume(c bool)
func verifAssert(c bool, label string)
func verifReach(label string)
