//go:build verif

package xmlenc

// verifCBCEncrypt returns iv || CBC_key,iv(blocks) for block cipher alg (0..2 AES-128/192/256, 3 triple DES):
// a cipher value whose decryption under the same key is exactly `blocks`, whatever their content.
func verifCBCEncrypt(alg int, key []byte, iv []byte, blocks []byte) []byte
