//go:build verif

package saml

import (
	"encoding/xml"
	"strconv"
)

// Harness_C01_chardata: the identity-bearing text elements (AttributeValue, NameID, Issuer, Audience)
// decoded from text that comments split into pieces. Exclusive canonicalisation drops comments before
// digesting, so the signature covers the concatenation of the pieces: that concatenation - nothing
// shorter - must be what the decoded value holds. (A type that walks the decoder's tokens itself is
// executed token by token; a plain struct follows encoding/xml's rule for ",chardata".)
func Harness_C01_chardata() {
	n := 1 + verifChoose("pieces", verifParam("pieces.max", 3))
	var pieces []string
	want := ""
	for i := 0; i < n; i++ {
		p := verifNondetString("piece" + strconv.Itoa(i))
		pieces = append(pieces, p)
		want += p
	}
	const ns = "urn:oasis:names:tc:SAML:2.0:assertion"
	got := ""
	var err error
	switch verifChoose("type", 4) {
	case 0:
		var v AttributeValue
		err = xml.Unmarshal(verifTextElement("AttributeValue", ns, pieces), &v)
		got = v.Value
	case 1:
		var v NameID
		err = xml.Unmarshal(verifTextElement("NameID", ns, pieces), &v)
		got = v.Value
	case 2:
		var v Issuer
		err = xml.Unmarshal(verifTextElement("Issuer", ns, pieces), &v)
		got = v.Value
	case 3:
		var v Audience
		err = xml.Unmarshal(verifTextElement("Audience", ns, pieces), &v)
		got = v.Value
	}
	if err != nil {
		verifReach("rejected")
		return
	}
	verifReach("decoded")
	verifAssert(got == want, "C01/chardata/value-is-the-whole-signed-text")
}
