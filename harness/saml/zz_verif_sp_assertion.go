//go:build verif

package saml

import "time"

// spAssertionScenario runs the real validateAssertion on an arbitrary
// unmarshalled Assertion (every optional element nil-able, 0..K confirmations
// and audience restrictions) under arbitrary configuration, clock and tolerances.
type spAssertionRun struct {
	sp        *ServiceProvider
	a         *Assertion
	ids       []string
	now       time.Time
	err       error
	audHook   bool
	audCalled bool
	audErr    error
}

func spAssertionScenario() *spAssertionRun {
	r := &spAssertionRun{}
	r.sp = verifSP("sp")
	verifTolerances()
	r.now = verifNondetTime("now")
	r.a = &Assertion{}
	verifHavoc("a", r.a)
	r.ids = verifIDs("ids", 2)
	var inner func(*Assertion) error
	verifHavoc("audhook", &inner)
	if inner != nil {
		r.audHook = true
		r.sp.ValidateAudienceRestriction = func(a *Assertion) error {
			r.audCalled = true
			r.audErr = inner(a)
			return r.audErr
		}
	}
	r.err = r.sp.validateAssertion(r.a, r.ids, r.now)
	return r
}

// Harness_C02_assertion: validity windows of the assertion-level checks.
func Harness_C02_assertion() {
	r := spAssertionScenario()
	a, now := r.a, r.now
	if r.err == nil {
		verifReach("accepted")
		verifAssert(verifNotAfter(now, a.IssueInstant.Add(MaxIssueDelay)), "C02/assertion-issue-delay")
		verifAssert(a.Subject != nil, "C02/subject-present")
		verifAssert(a.Conditions != nil, "C02/conditions-present")
		if a.Subject != nil {
			if len(a.Subject.SubjectConfirmations) == 2 {
				verifReach("accepted-two-confirmations")
			}
			for i := range a.Subject.SubjectConfirmations {
				scd := a.Subject.SubjectConfirmations[i].SubjectConfirmationData
				verifAssert(scd != nil, "C02/confirmation-data-present")
				if scd != nil {
					verifAssert(verifNotAfter(now, scd.NotOnOrAfter.Add(MaxClockSkew)), "C02/confirmation-not-on-or-after")
				}
			}
		}
		if a.Conditions != nil {
			verifAssert(verifNotAfter(a.Conditions.NotBefore.Add(-MaxClockSkew), now), "C02/conditions-not-before")
			verifAssert(verifNotAfter(now, a.Conditions.NotOnOrAfter.Add(MaxClockSkew)), "C02/conditions-not-on-or-after")
		}
		return
	}
	verifReach("rejected")
	// completeness: strictly inside every window and otherwise valid => accepted
	if a.Subject == nil || a.Conditions == nil {
		return
	}
	ok := now.Before(a.IssueInstant.Add(MaxIssueDelay))
	ok = verifAnd(ok, a.Issuer.Value == r.sp.IDPMetadata.EntityID)
	for i := range a.Subject.SubjectConfirmations {
		scd := a.Subject.SubjectConfirmations[i].SubjectConfirmationData
		if scd == nil {
			return
		}
		ok = verifAnd(ok, verifOr(r.sp.AllowIDPInitiated, verifInIDs(scd.InResponseTo, r.ids)))
		ok = verifAnd(ok, scd.Recipient == r.sp.AcsURL.String())
		ok = verifAnd(ok, now.Before(scd.NotOnOrAfter.Add(MaxClockSkew)))
	}
	ok = verifAnd(ok, a.Conditions.NotBefore.Add(-MaxClockSkew).Before(now))
	ok = verifAnd(ok, now.Before(a.Conditions.NotOnOrAfter.Add(MaxClockSkew)))
	if r.audHook {
		ok = verifAnd(ok, verifAnd(r.audCalled, r.audErr == nil))
	} else {
		aud := firstSetSpec(r.sp.EntityID, r.sp.MetadataURL.String())
		audOK := len(a.Conditions.AudienceRestrictions) == 0
		for i := range a.Conditions.AudienceRestrictions {
			audOK = verifOr(audOK, a.Conditions.AudienceRestrictions[i].Audience.Value == aud)
		}
		ok = verifAnd(ok, audOK)
	}
	verifAssert(!ok, "C02/strictly-inside-windows-is-accepted")
}

func firstSetSpec(a, b string) string {
	if a == "" {
		return b
	}
	return a
}

// Harness_C03_assertion: issuer, recipient and audience clauses.
func Harness_C03_assertion() {
	r := spAssertionScenario()
	a := r.a
	if r.err != nil {
		verifReach("rejected")
		return
	}
	verifReach("accepted")
	verifAssert(a.Issuer.Value == r.sp.IDPMetadata.EntityID, "C03/assertion-issuer")
	if a.Subject != nil {
		for i := range a.Subject.SubjectConfirmations {
			scd := a.Subject.SubjectConfirmations[i].SubjectConfirmationData
			if scd != nil {
				verifAssert(scd.Recipient == r.sp.AcsURL.String(), "C03/recipient")
			}
		}
	}
	if a.Conditions != nil {
		if r.audHook {
			verifAssert(r.audCalled, "C03/audience-hook-consulted")
			verifAssert(r.audErr == nil, "C03/audience-hook-verdict")
		} else {
			aud := firstSetSpec(r.sp.EntityID, r.sp.MetadataURL.String())
			audOK := len(a.Conditions.AudienceRestrictions) == 0
			for i := range a.Conditions.AudienceRestrictions {
				audOK = verifOr(audOK, a.Conditions.AudienceRestrictions[i].Audience.Value == aud)
			}
			if len(a.Conditions.AudienceRestrictions) > 0 {
				verifReach("accepted-with-audience")
			}
			verifAssert(audOK, "C03/audience")
		}
	}
}

// Harness_C04_assertion: InResponseTo of every subject confirmation.
func Harness_C04_assertion() {
	r := spAssertionScenario()
	a := r.a
	if r.err != nil {
		verifReach("rejected")
		return
	}
	verifReach("accepted")
	if r.sp.AllowIDPInitiated {
		return
	}
	if a.Subject != nil {
		for i := range a.Subject.SubjectConfirmations {
			scd := a.Subject.SubjectConfirmations[i].SubjectConfirmationData
			if scd != nil {
				verifReach("accepted-with-confirmation")
				verifAssert(verifInIDs(scd.InResponseTo, r.ids), "C04/confirmation-in-response-to")
				verifAssert(len(r.ids) > 0, "C04/no-outstanding-ids-nothing-accepted")
			}
		}
	}
}

// Harness_C09_assertion: validateAssertion never panics, whatever is absent.
func Harness_C09_assertion() {
	spAssertionScenario()
	verifReach("returned")
}
