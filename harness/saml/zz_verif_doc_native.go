//go:build verif

package saml

import (
	"crypto/x509"
	"bytes"
	"compress/flate"
	"github.com/beevik/etree"
	dsig "github.com/russellhaering/goxmldsig"
)

func verifSigningContext(id int, keyInfo int) *dsig.SigningContext {
	me, other := verifTestCert(0, id).Raw, verifTestCert(0, 1-id).Raw
	certs := [][]byte{me}
	switch keyInfo {
	case 2:
		certs = [][]byte{me, other}
	case 3:
		certs = [][]byte{other, me}
	}
	ctx, err := dsig.NewSigningContext(verifTestSigner(0, id), certs)
	if err != nil {
		panic(err)
	}
	ctx.Canonicalizer = dsig.MakeC14N10ExclusiveCanonicalizerWithPrefixList(canonicalizerPrefixList)
	if err := ctx.SetSignatureMethod(dsig.RSASHA256SignatureMethod); err != nil {
		panic(err)
	}
	return ctx
}

func verifSignatureOf(el *etree.Element, sign int, keyInfo ...int) *etree.Element {
	ki := 0
	if len(keyInfo) > 0 {
		ki = keyInfo[0]
	}
	signed, err := verifSigningContext(sign-1, ki).SignEnveloped(el)
	if err != nil {
		panic(err)
	}
	sig := signed.Child[len(signed.Child)-1].(*etree.Element)
	if ki == 1 {
		// KeyInfo is not covered by the signature: drop it
		if k := sig.FindElement("./KeyInfo"); k != nil {
			sig.RemoveChild(k)
		}
	}
	return sig
}

func verifMaterialise(d *verifDoc) []byte {
	r := *d.R
	r.Assertion = nil
	r.Signature = nil
	build := func() *etree.Element {
		el := r.Element()
		for i := range d.Assertions {
			a := *d.Assertions[i].A
			a.Signature = nil
			if d.Assertions[i].Sign != 0 {
				a.Signature = verifSignatureOf(a.Element(), d.Assertions[i].Sign, d.Assertions[i].KeyInfo)
			}
			el.AddChild(a.Element())
		}
		return el
	}
	el := build()
	if d.SignResponse != 0 {
		r.Signature = verifSignatureOf(el, d.SignResponse, d.KeyInfo)
		el = build()
	}
	doc := etree.NewDocument()
	doc.SetRoot(el)
	b, err := doc.WriteToBytes()
	if err != nil {
		panic(err)
	}
	return b
}

func verifMaterialiseLogout(lr *LogoutResponse, sign int, rootless bool) []byte {
	if rootless {
		return []byte("<!-- no root element -->")
	}
	r := *lr
	r.Signature = nil
	if sign != 0 {
		r.Signature = verifSignatureOf(r.Element(), sign)
	}
	doc := etree.NewDocument()
	doc.SetRoot(r.Element())
	b, err := doc.WriteToBytes()
	if err != nil {
		panic(err)
	}
	return b
}

func verifDeflate(b []byte) []byte {
	var buf bytes.Buffer
	w, err := flate.NewWriter(&buf, flate.DefaultCompression)
	if err != nil {
		panic(err)
	}
	if _, err := w.Write(b); err != nil {
		panic(err)
	}
	if err := w.Close(); err != nil {
		panic(err)
	}
	return buf.Bytes()
}

func verifSignedBy(el *etree.Element, kind int, id int) bool {
	store := dsig.MemoryX509CertificateStore{Roots: []*x509.Certificate{verifTestCert(kind, id)}}
	vc := dsig.NewDefaultValidationContext(&store)
	vc.IdAttribute = "ID"
	// validate a re-parsed copy, as a receiver would
	doc := etree.NewDocument()
	doc.SetRoot(el.Copy())
	b, err := doc.WriteToBytes()
	if err != nil {
		return false
	}
	doc2 := etree.NewDocument()
	if err := doc2.ReadFromBytes(b); err != nil {
		return false
	}
	_, err = vc.Validate(doc2.Root())
	return err == nil
}

func verifParseAssertionBytes(b []byte) *etree.Element {
	doc := etree.NewDocument()
	if err := doc.ReadFromBytes(b); err != nil {
		return nil
	}
	return doc.Root()
}
