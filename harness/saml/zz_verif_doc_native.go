//go:build verif

package saml

import (
	"bytes"
	"compress/flate"
	"crypto/x509"
	"github.com/beevik/etree"
	"github.com/crewjam/saml/xmlenc"
	dsig "github.com/russellhaering/goxmldsig"
	"io"
)

func verifSigningContext(id int, keyInfo int) *dsig.SigningContext {
	me, other := verifTestCert(0, id).Raw, verifTestCert(0, 1-id).Raw
	certs := [][]byte{me}
	switch keyInfo {
	case 2:
		certs = [][]byte{me, other}
	case 3:
		certs = [][]byte{other, me}
	}
	ctx, err := dsig.NewSigningContext(verifTestSigner(0, id), certs)
	if err != nil {
		panic(err)
	}
	ctx.Canonicalizer = dsig.MakeC14N10ExclusiveCanonicalizerWithPrefixList(canonicalizerPrefixList)
	if err := ctx.SetSignatureMethod(dsig.RSASHA256SignatureMethod); err != nil {
		panic(err)
	}
	return ctx
}

func verifSignatureOf(el *etree.Element, sign int, keyInfo ...int) *etree.Element {
	ki := 0
	if len(keyInfo) > 0 {
		ki = keyInfo[0]
	}
	signed, err := verifSigningContext(sign-1, ki).SignEnveloped(el)
	if err != nil {
		panic(err)
	}
	sig := signed.Child[len(signed.Child)-1].(*etree.Element)
	if ki == 1 {
		// KeyInfo is not covered by the signature: drop it
		if k := sig.FindElement("./KeyInfo"); k != nil {
			sig.RemoveChild(k)
		}
	}
	return sig
}

func verifMaterialise(d *verifDoc) []byte {
	doc := etree.NewDocument()
	doc.SetRoot(verifResponseElement(d))
	b, err := doc.WriteToBytes()
	if err != nil {
		panic(err)
	}
	return b
}

// verifEncryptedAssertion wraps the element the way the IdP does (RSA-OAEP + AES-128-CBC) for test certificate 1+to.
func verifEncryptedAssertion(el *etree.Element, to int) *etree.Element {
	doc := etree.NewDocument()
	doc.SetRoot(el)
	buf, err := doc.WriteToBytes()
	if err != nil {
		panic(err)
	}
	encryptor := xmlenc.OAEP()
	encryptor.BlockCipher = xmlenc.AES128CBC
	encryptor.DigestMethod = &xmlenc.SHA1
	data, err := encryptor.Encrypt(verifTestCert(0, 1+to), buf, nil)
	if err != nil {
		panic(err)
	}
	data.CreateAttr("Type", "http://www.w3.org/2001/04/xmlenc#Element")
	enc := etree.NewElement("saml:EncryptedAssertion")
	enc.AddChild(data)
	return enc
}

func verifMaterialiseArtifact(d *verifArtifactDoc) []byte {
	ar := *d.AR
	ar.Signature = nil
	build := func() *etree.Element {
		el := ar.Element()
		// Element() appends the struct's own (empty) Response: replace it by the document
		el.RemoveChildAt(len(el.Child) - 1)
		el.AddChild(verifResponseElement(d.D))
		return el
	}
	el := build()
	if d.SignAR != 0 {
		ar.Signature = verifSignatureOf(el, d.SignAR, d.KeyInfo)
		el = build()
	}
	env := etree.NewElement("soap:Envelope")
	env.CreateAttr("xmlns:soap", "http://schemas.xmlsoap.org/soap/envelope/")
	body := env.CreateElement("soap:Body")
	body.AddChild(el)
	doc := etree.NewDocument()
	doc.SetRoot(env)
	b, err := doc.WriteToBytes()
	if err != nil {
		panic(err)
	}
	return b
}

func verifResponseElement(d *verifDoc) *etree.Element {
	r := *d.R
	r.Assertion = nil
	r.Signature = nil
	// the children are built once: encryption draws a fresh key and IV, and the Response signature covers them
	var children []*etree.Element
	for i := range d.Assertions {
		a := *d.Assertions[i].A
		a.Signature = nil
		if d.Assertions[i].Sign != 0 {
			a.Signature = verifSignatureOf(a.Element(), d.Assertions[i].Sign, d.Assertions[i].KeyInfo)
		}
		if d.Assertions[i].Encrypt != 0 {
			enc := verifEncryptedAssertion(a.Element(), d.Assertions[i].Encrypt)
			if rm := d.Assertions[i].Retrieval; rm != 0 {
				data := enc.ChildElements()[0]
				ki := data.FindElement("./KeyInfo")
				if ki == nil {
					ki = data.CreateElement("ds:KeyInfo")
					ki.CreateAttr("xmlns:ds", "http://www.w3.org/2000/09/xmldsig#")
				}
				m := ki.CreateElement("ds:RetrievalMethod")
				m.CreateAttr("Type", "http://www.w3.org/2001/04/xmlenc#EncryptedKey")
				m.CreateAttr("URI", verifRetrievalURIs[rm-1])
			}
			children = append(children, enc)
		} else {
			children = append(children, a.Element())
		}
	}
	build := func() *etree.Element {
		el := r.Element()
		for _, c := range children {
			el.AddChild(c.Copy())
		}
		return el
	}
	el := build()
	if d.SignResponse != 0 {
		r.Signature = verifSignatureOf(el, d.SignResponse, d.KeyInfo)
		el = build()
	}
	return el
}

func verifMaterialiseLogout(lr *LogoutResponse, sign int, rootless bool) []byte {
	if rootless {
		return []byte("<!-- no root element -->")
	}
	r := *lr
	r.Signature = nil
	if sign != 0 {
		r.Signature = verifSignatureOf(r.Element(), sign)
	}
	doc := etree.NewDocument()
	doc.SetRoot(r.Element())
	b, err := doc.WriteToBytes()
	if err != nil {
		panic(err)
	}
	return b
}

func verifInflateSource(size int) io.Reader {
	return bytes.NewReader(verifDeflate(make([]byte, size)))
}

func verifReadMany(r io.Reader, bufLen int, reads int) int {
	p := make([]byte, bufLen)
	total := 0
	for {
		n, err := r.Read(p)
		total += n
		if err != nil {
			return total
		}
	}
}

func verifDeflate(b []byte) []byte {
	var buf bytes.Buffer
	w, err := flate.NewWriter(&buf, flate.DefaultCompression)
	if err != nil {
		panic(err)
	}
	if _, err := w.Write(b); err != nil {
		panic(err)
	}
	if err := w.Close(); err != nil {
		panic(err)
	}
	return buf.Bytes()
}

func verifSignedBy(el *etree.Element, kind int, id int) bool {
	store := dsig.MemoryX509CertificateStore{Roots: []*x509.Certificate{verifTestCert(kind, id)}}
	vc := dsig.NewDefaultValidationContext(&store)
	vc.IdAttribute = "ID"
	// validate a re-parsed copy, as a receiver would
	doc := etree.NewDocument()
	doc.SetRoot(el.Copy())
	b, err := doc.WriteToBytes()
	if err != nil {
		return false
	}
	doc2 := etree.NewDocument()
	if err := doc2.ReadFromBytes(b); err != nil {
		return false
	}
	_, err = vc.Validate(doc2.Root())
	return err == nil
}

func verifParseAssertionBytes(b []byte) *etree.Element {
	doc := etree.NewDocument()
	if err := doc.ReadFromBytes(b); err != nil {
		return nil
	}
	return doc.Root()
}
