//go:build verif

package saml

import "time"

const verifHostile = `"><script>verif()</script>`

// Harness_C14_forms: every auto-submit form the SP and the IdP emit is produced by contextual escaping
// of plain strings, and binds the action and the hidden fields to the intended values - for a relay
// state, destination and ACS location that start with markup.
func Harness_C14_forms() {
	sp := verifSP("sp")
	var drawn []byte
	calls := 0
	RandReader = verifRandReader{&drawn, &calls}
	now := verifNondetTimeMs("now")
	TimeNow = func() time.Time { return now }
	relayState := verifHostile + verifNondetString("relayState")
	// the destination is a URL of URL-safe text (html/template normalises other characters inside URL attributes)
	dest := "https://idp.example.com/sso?x=" + verifNondetString("destination")
	scriptDest := verifChoose("destination.script", 2) == 1
	if scriptDest {
		// a destination that is itself a script URL (metadata built in code never went through the endpoint checks)
		dest = "javascript:verifscript//" + verifNondetString("destination")
	}
	var body []byte
	msgField := "SAMLRequest"
	switch verifChoose("form", 4) {
	case 0:
		req, err := sp.MakeAuthenticationRequest(dest, HTTPPostBinding, HTTPPostBinding)
		if err != nil {
			return
		}
		body = req.Post(relayState)
		verifReach("authn-request-form")
	case 1:
		req, err := sp.MakeLogoutRequest(dest, "name-id")
		if err != nil {
			return
		}
		body = req.Post(relayState)
		verifReach("logout-request-form")
	case 2:
		resp, err := sp.MakeLogoutResponse(dest, "request-id")
		if err != nil {
			return
		}
		body = resp.Post(relayState)
		msgField = "SAMLResponse"
		verifReach("logout-response-form")
	case 3:
		r := idpScenario(0, false, false)
		r.req.RelayState = relayState
		r.req.ACSEndpoint.Location = dest
		if err := (DefaultAssertionMaker{}).MakeAssertion(r.req, r.session); err != nil {
			return
		}
		w := verifNewResponseWriter()
		if err := r.req.WriteResponse(w); err != nil {
			return
		}
		body = w.Body
		msgField = "SAMLResponse"
		verifReach("idp-response-form")
	}
	if scriptDest {
		verifAssert(verifFormInert(body, "javascript:verifscript"), "C14/forms/no-script-url-reaches-the-form")
	}
	verifAssert(verifFormInert(body, verifHostile), "C14/forms/peer-strings-are-inert")
	action, ok := verifFormField(body, "action")
	verifAssert(ok, "C14/forms/action-present")
	if ok && !scriptDest {
		verifAssert(action == dest, "C14/forms/action-is-the-destination")
	}
	rs, ok := verifFormField(body, "RelayState")
	verifAssert(ok, "C14/forms/relay-state-field-present")
	if ok {
		verifAssert(rs == relayState, "C14/forms/relay-state-field-carries-the-relay-state")
	}
	_, ok = verifFormField(body, msgField)
	verifAssert(ok, "C14/forms/message-field-present")
}
