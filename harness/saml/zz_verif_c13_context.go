//go:build verif

package saml

import (
	"crypto/ecdsa"
	"crypto/rsa"

	dsig "github.com/russellhaering/goxmldsig"
)

func verifIsRSAMethod(m string) bool {
	return m == dsig.RSASHA1SignatureMethod || m == dsig.RSASHA256SignatureMethod ||
		m == dsig.RSASHA384SignatureMethod || m == dsig.RSASHA512SignatureMethod
}

func verifIsECDSAMethod(m string) bool {
	return m == dsig.ECDSASHA1SignatureMethod || m == dsig.ECDSASHA256SignatureMethod ||
		m == dsig.ECDSASHA384SignatureMethod || m == dsig.ECDSASHA512SignatureMethod
}

// Harness_C13_context: GetSigningContext succeeds only for a method that is
// one of the eight supported URIs and matches the key type; the context then
// carries exactly that method.
func Harness_C13_context() {
	sp := verifSP("sp")
	kind := verifChoose("keykind", 3)
	sp.Key = verifTestSigner(kind, 0)
	sp.Certificate = verifTestCert(kind, 0)
	sp.SignatureMethod = verifNondetString("sp.SignatureMethod")
	ctx, err := GetSigningContext(sp)
	if err != nil {
		verifReach("refused")
		// completeness: a supported method with the matching key type is not refused
		_, isRSA := sp.Key.(*rsa.PrivateKey)
		_, isEC := sp.Key.(*ecdsa.PrivateKey)
		if isRSA {
			verifAssert(!verifIsRSAMethod(sp.SignatureMethod), "C13/context/rsa-method-with-rsa-key-accepted")
		}
		if isEC {
			verifAssert(!verifIsECDSAMethod(sp.SignatureMethod), "C13/context/ecdsa-method-with-ecdsa-key-accepted")
		}
		return
	}
	verifReach("context")
	verifAssert(ctx != nil, "C13/context/non-nil")
	_, isRSA := sp.Key.(*rsa.PrivateKey)
	_, isEC := sp.Key.(*ecdsa.PrivateKey)
	okRSA := verifAnd(isRSA, verifIsRSAMethod(sp.SignatureMethod))
	okEC := verifAnd(isEC, verifIsECDSAMethod(sp.SignatureMethod))
	verifAssert(verifOr(okRSA, okEC), "C13/context/method-matches-key-type")
	if ctx != nil {
		verifAssert(ctx.GetSignatureMethodIdentifier() == sp.SignatureMethod, "C13/context/method-is-configured-method")
	}
}
