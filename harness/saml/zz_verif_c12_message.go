//go:build verif

package saml

import "time"

// Harness_C12_authnrequest: MakeAuthenticationRequest carries the configured
// issuer, destination, ACS URL, binding and name-ID policy, a fresh ID derived
// from >= 16 random bytes drawn in this call, and Element() re-embeds them.
func Harness_C12_authnrequest() {
	sp := verifSP("sp")
	sp.AuthnNameIDFormat = NameIDFormat(verifNondetString("sp.AuthnNameIDFormat"))
	// what the IdP's metadata lists as supported formats is not the SP's configuration
	switch verifChoose("idp.nameidformats", 3) {
	case 1:
		sp.IDPMetadata.IDPSSODescriptors[0].NameIDFormats = []NameIDFormat{TransientNameIDFormat}
	case 2:
		sp.IDPMetadata.IDPSSODescriptors[0].NameIDFormats = []NameIDFormat{PersistentNameIDFormat, EmailAddressNameIDFormat}
	}
	var drawn []byte
	calls := 0
	RandReader = verifRandReader{&drawn, &calls}
	now := verifNondetTimeMs("now")
	TimeNow = func() time.Time { return now }
	idpURL := verifNondetString("idpURL")
	binding := HTTPRedirectBinding
	if verifNondetBool("binding.post") {
		binding = HTTPPostBinding
	}
	resultBinding := verifNondetString("resultBinding")

	req, err := sp.MakeAuthenticationRequest(idpURL, binding, resultBinding)
	verifAssert(err == nil, "C12/authnrequest/no-error-without-signing")
	if err != nil {
		return
	}
	verifReach("made")
	verifAssert(len(drawn) >= 16, "C12/ids/at-least-128-bits")
	verifAssert(req.ID == "id-"+verifHex(drawn), "C12/ids/id-is-hex-of-fresh-random-bytes")
	verifAssert(req.Version == "2.0", "C12/authnrequest/version")
	verifAssert(req.Destination == idpURL, "C12/authnrequest/destination")
	verifAssert(req.AssertionConsumerServiceURL == sp.AcsURL.String(), "C12/authnrequest/acs-url")
	verifAssert(req.ProtocolBinding == resultBinding, "C12/authnrequest/protocol-binding")
	verifAssert(req.IssueInstant.Equal(now), "C12/authnrequest/issue-instant")
	verifAssert(req.Issuer != nil, "C12/authnrequest/issuer-present")
	if req.Issuer != nil {
		verifAssert(req.Issuer.Value == firstSetSpec(sp.EntityID, sp.MetadataURL.String()), "C12/authnrequest/issuer")
	}
	verifAssert(req.NameIDPolicy != nil, "C12/authnrequest/nameidpolicy-present")
	if req.NameIDPolicy != nil {
		verifAssert(req.NameIDPolicy.Format != nil, "C12/authnrequest/nameidpolicy-format-present")
		if req.NameIDPolicy.Format != nil {
			want := string(sp.AuthnNameIDFormat)
			if sp.AuthnNameIDFormat == "" {
				want = string(TransientNameIDFormat)
			} else if sp.AuthnNameIDFormat == UnspecifiedNameIDFormat {
				want = ""
			}
			verifAssert(*req.NameIDPolicy.Format == want, "C12/authnrequest/nameidpolicy-format")
		}
	}
	// the element form carries the same values
	el := req.Element()
	verifAssert(el.Tag == "AuthnRequest", "C12/element/tag")
	verifAssert(el.SelectAttrValue("ID", "") == req.ID, "C12/element/id")
	verifAssert(el.SelectAttrValue("Version", "") == "2.0", "C12/element/version")
	verifAssert(el.SelectAttrValue("Destination", "") == idpURL, "C12/element/destination")
	verifAssert(el.SelectAttrValue("AssertionConsumerServiceURL", "") == sp.AcsURL.String(), "C12/element/acs-url")
	verifAssert(el.SelectAttrValue("ProtocolBinding", "") == resultBinding, "C12/element/protocol-binding")
	issuerEl := el.FindElement("./Issuer")
	verifAssert(issuerEl != nil, "C12/element/issuer-present")
	if issuerEl != nil {
		verifAssert(issuerEl.Text() == firstSetSpec(sp.EntityID, sp.MetadataURL.String()), "C12/element/issuer")
	}
}
