//go:build verif

package saml

import (
	"net/url"
	"time"
)

// Harness_C04_artifact: the real ParseXMLArtifactResponse on a materialised SOAP envelope:
// an ArtifactResponse with arbitrary fields and its own signing choice around a Response document
// that is valid by construction (assertion possibly expired), every element unsigned / signed by the
// trusted key / signed by an untrusted key. Obligations of C01 (trust), C02 (freshness), C03
// (addressing), C04 (it answers the ArtifactResolve request just issued - with or without
// IdP-initiated login) and C09 (no panic) on the artifact path, labelled by property.
func Harness_C04_artifact() {
	sp := verifSP("sp")
	verifTolerances()
	verifAssume(MaxClockSkew < time.Hour)
	now := verifNondetTime("now")
	verifAssume(now.After(time.Unix(0, 0)))
	TimeNow = func() time.Time { return now }
	ids := verifIDs("ids", 2)
	cur := verifNondetURL("currentURL")
	resolveID := verifNondetString("artifactRequestID")

	ar := &ArtifactResponse{}
	verifHavoc("ar", ar)
	ar.Signature = nil
	ar.Response = Response{}
	ar.Status.StatusMessage, ar.Status.StatusDetail, ar.Status.StatusCode.StatusCode = nil, nil, nil
	if ar.Issuer != nil {
		ar.Issuer.NameQualifier, ar.Issuer.SPNameQualifier, ar.Issuer.Format, ar.Issuer.SPProvidedID = "", "", "", ""
	}
	var d *verifDoc
	var ad *verifArtifactDoc
	if verifParam("artifact.layouts", 1) == 1 {
		d = verifValidDoc("doc", 1, sp, ids, now, true)
		ad = &verifArtifactDoc{AR: ar, SignAR: verifChoose("signAR", 3), D: d}
	} else {
		// the signing layouts are the subject of the C01/C04 runs: here one layout (envelope signed by the trusted key)
		r := &Response{ID: verifNondetString("doc.R.ID"), Version: "2.0", IssueInstant: now, Destination: sp.AcsURL.String()}
		if len(ids) > 0 {
			r.InResponseTo = ids[0]
		}
		r.Status.StatusCode.Value = StatusSuccess
		d = &verifDoc{R: r, Assertions: []verifDocAssertion{{A: verifValidAssertion("doc.A0", sp, ids, now)}}}
		ad = &verifArtifactDoc{AR: ar, SignAR: 1, D: d}
	}

	a, err := sp.ParseXMLArtifactResponse(verifMaterialiseArtifact(ad), ids, resolveID, cur)
	verifNote("err", err)
	if err != nil {
		verifReach("rejected")
		verifAssert(a == nil, "C09/artifact/error-without-assertion")
		return
	}
	verifReach("accepted")
	verifAssert(a != nil && len(d.Assertions) == 1, "C01/artifact/returned-assertion-is-from-the-document")
	if a == nil || len(d.Assertions) != 1 {
		return
	}
	// C04: the ArtifactResponse answers exactly the resolve request the SP issued (no IdP-initiated exemption)
	verifAssert(ar.InResponseTo == resolveID, "C04/artifact/answers-the-resolve-request")
	// C02: freshness of the envelope
	verifAssert(verifNotAfter(now, ar.IssueInstant.Add(MaxIssueDelay)), "C02/artifact/issue-delay")
	// C03: addressing
	verifAssert(verifOr(ar.Issuer == nil, ar.Issuer != nil && ar.Issuer.Value == sp.IDPMetadata.EntityID), "C03/artifact/issuer")
	verifAssert(ar.Status.StatusCode.Value == StatusSuccess, "C03/artifact/status-success")
	// C01: trust
	verifAssert(ad.SignAR != 2, "C01/artifact/untrusted-artifact-signature-rejects")
	// (an envelope signed by the trusted key covers the whole Response, whatever else is attached to it)
	verifAssert(d.SignResponse != 2 || ad.SignAR == 1, "C01/artifact/untrusted-response-signature-rejects-unless-the-envelope-is-trusted")
	verifAssert(d.Assertions[0].Sign == 1 || d.SignResponse == 1 || ad.SignAR == 1, "C01/artifact/covered-by-trusted-signature")
	if ad.SignAR == 1 && d.SignResponse == 0 && d.Assertions[0].Sign == 0 {
		verifReach("accepted-by-artifact-signature")
	}
}

type verifPresetReader struct {
	b   []byte
	off *int
}

func (r verifPresetReader) Read(p []byte) (int, error) {
	n := copy(p, r.b[*r.off:])
	*r.off += n
	return n, nil
}

// Harness_C09_artifact_http: ParseResponse with a SAMLart parameter, the artifact resolver being a
// client whose reply the harness fixes: transport failure, any status code, and a body that is empty,
// rootless, arbitrary bytes, or a well-formed envelope (answering the resolve request or another one).
// Total (an assertion or an error, never a panic); an assertion only from a 200 reply whose
// ArtifactResponse answers the ArtifactResolve the SP just sent (ID from the random source).
func Harness_C09_artifact_http() {
	sp := verifSP("sp")
	sp.IDPMetadata.IDPSSODescriptors[0].ArtifactResolutionServices = []Endpoint{{Binding: SOAPBinding, Location: "https://idp.example.com/artifact"}}
	MaxIssueDelay, MaxClockSkew = 90*time.Second, 180*time.Second
	now := verifNondetTime("now")
	verifAssume(now.After(time.Unix(0, 0)))
	TimeNow = func() time.Time { return now }
	ids := verifIDs("ids", 1)
	pre := verifNondetBytes("rand", 20)
	off := 0
	RandReader = verifPresetReader{pre, &off}
	resolveID := "id-" + verifHex(pre)

	fail := verifNondetBool("http.fail")
	status := verifNondetInt("http.status")
	var body []byte
	inResponseTo := ""
	kind := verifChoose("http.body", 4)
	switch kind {
	case 0:
		body = []byte{}
	case 1: // well-formed XML without a root element
		body = verifMaterialiseLogout(&LogoutResponse{}, 0, true)
	case 2: // not XML at all
		body = []byte("Internal Server Error\n")
	case 3:
		inResponseTo = resolveID
		if verifChoose("http.answers-other", 2) == 1 {
			inResponseTo = verifNondetString("other-resolve-id")
		}
		ar := &ArtifactResponse{ID: "ar", InResponseTo: inResponseTo, Version: "2.0", IssueInstant: now}
		ar.Status.StatusCode.Value = StatusSuccess
		r := &Response{ID: "r", Version: "2.0", IssueInstant: now, Destination: sp.AcsURL.String()}
		if len(ids) > 0 {
			r.InResponseTo = ids[0]
		}
		r.Status.StatusCode.Value = StatusSuccess
		d := &verifDoc{R: r, Assertions: []verifDocAssertion{{A: verifValidAssertion("doc.A0", sp, ids, now)}}}
		body = verifMaterialiseArtifact(&verifArtifactDoc{AR: ar, SignAR: 1, D: d})
	}
	client := verifHTTPClient(fail, status, body)
	sp.HTTPClient = client

	form := url.Values{}
	artifact := verifNondetString("artifact")
	verifAssume(artifact != "")
	form.Set("SAMLart", artifact)
	req := verifRequest("POST", "https://sp.example.com/saml/acs", form, nil)
	if req.ParseForm() != nil {
		return
	}
	a, err := sp.ParseResponse(req, ids)
	verifNote("err", err)
	verifReach("returned")
	verifAssert((a == nil) != (err == nil), "C09/artifact-http/assertion-or-error")
	verifAssert(verifHTTPCalls(client) == 1, "C09/artifact-http/one-resolve-request")
	if err != nil {
		verifReach("rejected")
		return
	}
	verifReach("accepted")
	verifAssert(!fail && status == 200 && kind == 3, "C09/artifact-http/assertion-only-from-a-good-reply")
	verifAssert(inResponseTo == resolveID, "C04/artifact-http/answers-the-resolve-request-just-sent")
}
