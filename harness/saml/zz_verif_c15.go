//go:build verif

package saml

// Harness_C15_roundtrip: for every int64 nanosecond duration d (other than the
// most negative value, decided separately), UnmarshalText(MarshalText(d)) == d.
func Harness_C15_roundtrip() { verifC15Roundtrip() }

// Harness_C15_digits: the same obligation decided with the numerals modelled digit by digit (every
// string operation works position by position, so it does not depend on how the text is produced).
func Harness_C15_digits() { verifC15Roundtrip() }

func verifC15Roundtrip() {
	// |d| < 2^63 (the most negative value is Harness_C15_minint); the sign is a separate choice
	mag := verifNondetInt64("magnitude")
	verifAssume(mag >= 0)
	d := Duration(mag)
	if verifChoose("negative", 2) == 1 {
		d = -d
	}
	text, err := d.MarshalText()
	verifAssert(err == nil, "C15/duration/marshal-succeeds")
	if err != nil {
		return
	}
	var out Duration
	uerr := out.UnmarshalText(text)
	verifReach("roundtrip")
	verifAssert(uerr == nil, "C15/duration/own-text-is-accepted")
	if uerr == nil {
		verifAssert(out == d, "C15/duration/roundtrip-identity")
	}
}

// Harness_C15_minint: the most negative duration.
func Harness_C15_minint() {
	d := Duration(-1 << 63)
	text, err := d.MarshalText()
	if err != nil {
		return
	}
	var out Duration
	uerr := out.UnmarshalText(text)
	verifReach("roundtrip")
	verifAssert(uerr == nil, "C15/duration/minint-text-is-accepted")
	if uerr == nil {
		verifAssert(out == d, "C15/duration/minint-roundtrip-identity")
	}
}
