//go:build verif

package saml

import (
	"encoding/base64"
	"net/url"
	"time"
)

type logoutRun struct {
	sp       *ServiceProvider
	lr       *LogoutResponse
	sign     int
	rootless bool
	base     time.Time
	err      error
}

// logoutScenario: the real ValidateLogoutResponseForm / Redirect on a materialised
// logout response: arbitrary fields, Issuer nil-able, unsigned / trusted / untrusted
// signature, or a document without a root element.
func logoutScenario(redirect bool) *logoutRun {
	r := &logoutRun{}
	r.sp = verifSP("sp")
	verifTolerances()
	r.base = time.Now()
	r.lr = &LogoutResponse{}
	verifHavoc("lr", r.lr)
	r.lr.Signature = nil
	r.lr.Consent = ""
	r.lr.Status.StatusMessage = nil
	r.lr.Status.StatusDetail = nil
	// a second-level status code may be present (its own nesting is cut)
	if sc := r.lr.Status.StatusCode.StatusCode; sc != nil {
		sc.StatusCode = nil
	}
	if r.lr.Issuer != nil {
		r.lr.Issuer.NameQualifier, r.lr.Issuer.SPNameQualifier, r.lr.Issuer.Format, r.lr.Issuer.SPProvidedID = "", "", "", ""
	}
	// second configuration: a concrete logout URL with a query, and Destinations that differ from it only in the
	// query or by an added fragment (the comparison is on the whole URL text)
	if verifChoose("slo.concrete", 2) == 1 {
		u, perr := url.Parse("https://sp.example.com/saml/slo?tenant=alpha")
		verifAssume(perr == nil)
		r.sp.SloURL = *u
		r.lr.Destination = []string{
			"https://sp.example.com/saml/slo?tenant=alpha",
			"https://sp.example.com/saml/slo?tenant=beta",
			"https://sp.example.com/saml/slo",
			"https://sp.example.com/saml/slo?tenant=alpha#frag",
		}[verifChoose("lr.Destination.class", 4)]
	}
	age := verifNondetDuration("lr.age")
	verifAssume(age > -(1 << 62))
	verifAssume(age < 1<<62)
	r.lr.IssueInstant = r.base.Add(-age)
	r.sign = verifChoose("sign", 3)
	r.rootless = verifChoose("rootless", 2) == 1
	raw := verifMaterialiseLogout(r.lr, r.sign, r.rootless)
	if redirect {
		r.err = r.sp.ValidateLogoutResponseRedirect(base64.StdEncoding.EncodeToString(verifDeflate(raw)))
	} else {
		r.err = r.sp.ValidateLogoutResponseForm(base64.StdEncoding.EncodeToString(raw))
	}
	verifNote("err", r.err)
	return r
}

func logoutOracle(r *logoutRun) {
	if r.err != nil {
		verifReach("rejected")
		// completeness: a trusted-signed, correctly addressed, fresh, successful response is valid
		if r.rootless || r.sign != 1 || r.lr.Issuer == nil {
			return
		}
		ok := r.lr.Destination == r.sp.SloURL.String()
		ok = verifAnd(ok, r.lr.Issuer.Value == r.sp.IDPMetadata.EntityID)
		ok = verifAnd(ok, r.lr.Status.StatusCode.Value == StatusSuccess)
		// one minute inside the window (the library reads the wall clock itself, a little after r.base)
		ok = verifAnd(ok, r.base.Add(time.Minute).Before(r.lr.IssueInstant.Add(MaxIssueDelay)))
		verifAssert(!ok, "C18/valid-response-is-accepted")
		return
	}
	verifReach("valid")
	if r.base.Add(time.Minute).Before(r.lr.IssueInstant.Add(MaxIssueDelay)) {
		verifReach("valid-with-margin")
	}
	verifAssert(!r.rootless, "C18/root-element-required")
	verifAssert(r.sign == 1, "C18/trusted-signature-required")
	verifAssert(r.lr.Destination == r.sp.SloURL.String(), "C18/destination")
	verifAssert(r.lr.Issuer != nil, "C18/issuer-present")
	if r.lr.Issuer != nil {
		verifAssert(r.lr.Issuer.Value == r.sp.IDPMetadata.EntityID, "C18/issuer")
	}
	verifAssert(r.lr.Status.StatusCode.Value == StatusSuccess, "C18/status-success")
	// issued no longer than MaxIssueDelay (plus ms rounding of the text form) before the check started
	verifAssert(verifNotAfter(r.base, r.lr.IssueInstant.Add(MaxIssueDelay).Add(time.Millisecond)), "C18/fresh")
}

func Harness_C18_form()     { logoutOracle(logoutScenario(false)) }
func Harness_C18_redirect() { logoutOracle(logoutScenario(true)) }

// Harness_C09_logout: the logout entry points never panic.
func Harness_C09_logout() {
	logoutScenario(verifChoose("redirect", 2) == 1)
	verifReach("returned")
}
