//go:build verif

package saml

// verifInnerReader is the inflater under the limiter: it delivers any number of
// bytes 0..len(p) and any error.
type verifInnerReader struct {
	calls *int
}

func (r verifInnerReader) Read(p []byte) (int, error) {
	*r.calls++
	n := verifNondetInt("inner.n")
	verifAssume(n >= 0)
	verifAssume(n <= len(p))
	if verifNondetBool("inner.err") {
		return n, verifRandErr{}
	}
	return n, nil
}

func (r verifInnerReader) Close() error { return nil }

// Harness_C09_flate: one step of saferFlateReader.Read from an arbitrary state
// that satisfies the invariant 0 <= count <= limit keeps the invariant, so the
// bytes delivered in total never exceed the 10 MB limit.
func Harness_C09_flate() {
	calls := 0
	r := &saferFlateReader{r: verifInnerReader{&calls}}
	r.count = verifNondetInt("count")
	verifAssume(r.count >= 0)
	verifAssume(r.count <= flateUncompressLimit)
	before := r.count
	p := verifNondetBytesLen("p", 1<<26)
	n, err := r.Read(p)
	verifReach("read")
	verifAssert(r.count <= flateUncompressLimit, "C09/flate/count-never-exceeds-limit")
	verifAssert(r.count == before+n, "C09/flate/count-tracks-bytes-delivered")
	verifAssert(n >= 0, "C09/flate/n-nonnegative")
	verifAssert(n <= len(p), "C09/flate/n-at-most-len")
	if calls == 0 {
		verifReach("refused")
		verifAssert(err != nil, "C09/flate/refusal-is-an-error")
		verifAssert(n == 0, "C09/flate/refusal-delivers-nothing")
		verifAssert(before+len(p) > flateUncompressLimit, "C09/flate/refuses-only-beyond-limit")
	}
}
