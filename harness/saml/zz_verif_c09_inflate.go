//go:build verif

package saml

// Harness_C09_inflate: the bounding reader as its users get it (newSaferFlateReader over a deflate stream
// of arbitrary inflated size), read with buffers of an arbitrary size: however the reads go, the bytes
// delivered in total never exceed the 10 MB limit. (Black box: no field of the reader is touched.)
func Harness_C09_inflate() {
	size := verifNondetInt("inflated.size")
	verifAssume(size >= 0)
	verifAssume(size <= 1<<26)
	bufLen := verifNondetInt("buf.len")
	verifAssume(bufLen >= 1)
	verifAssume(bufLen <= 1<<24)
	rc := newSaferFlateReader(verifInflateSource(size))
	total := verifReadMany(rc, bufLen, verifParam("flate.reads", 3))
	verifReach("read")
	verifAssert(total <= flateUncompressLimit, "C09/flate/delivers-at-most-the-limit")
}
