//go:build verif

package saml

import (
	"net/url"
	"time"
)

// spFlowRun: the real ParseXMLResponse on a materialised document.
type spFlowRun struct {
	sp     *ServiceProvider
	d      *verifDoc
	ids    []string
	now    time.Time
	cur    url.URL
	a      *Assertion
	err    error
	idHook bool
	idErr  error
}

func spFlowScenario(maxAssertions int, validResponse bool) *spFlowRun {
	r := &spFlowRun{}
	r.sp = verifSP("sp")
	verifTolerances()
	// the by-construction-valid assertions are +-1h around now: keep the tolerances below that
	verifAssume(MaxClockSkew < time.Hour)
	r.now = verifNondetTime("now")
	verifAssume(r.now.After(time.Unix(0, 0)))
	now := r.now
	TimeNow = func() time.Time { return now }
	r.ids = verifIDs("ids", 2)
	r.cur = verifNondetURL("currentURL")
	var inner func(Response, []string) error
	verifHavoc("idhook", &inner)
	if inner != nil {
		r.idHook = true
		r.sp.ValidateRequestID = func(resp Response, ids []string) error {
			r.idErr = inner(resp, ids)
			return r.idErr
		}
	}
	r.d = verifValidDoc("doc", maxAssertions, r.sp, r.ids, r.now, validResponse)
	// assertion IDs are pairwise distinct so that the returned assertion can be identified
	for i := range r.d.Assertions {
		for j := 0; j < i; j++ {
			verifAssume(r.d.Assertions[i].A.ID != r.d.Assertions[j].A.ID)
		}
	}
	r.a, r.err = r.sp.ParseXMLResponse(verifMaterialise(r.d), r.ids, r.cur)
	verifNote("err", r.err)
	return r
}

// verifSource returns the index of the document assertion that was returned, or -1.
func (r *spFlowRun) source() int {
	for i := range r.d.Assertions {
		if r.d.Assertions[i].A.ID == r.a.ID {
			return i
		}
	}
	return -1
}

// Harness_C01_flow: an assertion is returned only if it is one of the
// document's assertions and a trusted signature covers it (its own or the
// Response's), and no Response signature by an untrusted key is present.
func Harness_C01_flow() {
	r := spFlowScenario(verifParam("assertions.max", 2), true)
	if r.err != nil {
		verifReach("rejected")
		return
	}
	verifReach("accepted")
	verifAssert(r.a != nil, "C01/flow/accepted-has-assertion")
	if r.a == nil {
		return
	}
	i := r.source()
	verifAssert(i >= 0, "C01/flow/returned-assertion-is-from-the-document")
	if i < 0 {
		return
	}
	if r.d.SignResponse == 1 {
		verifReach("accepted-by-response-signature")
	}
	if r.d.Assertions[i].Sign == 1 && r.d.SignResponse == 0 {
		verifReach("accepted-by-assertion-signature")
	}
	verifAssert(r.d.SignResponse != 2, "C01/flow/untrusted-response-signature-rejects")
	verifAssert(r.d.Assertions[i].Sign == 1 || r.d.SignResponse == 1, "C01/flow/covered-by-trusted-signature")
	if r.d.SignResponse != 1 {
		verifAssert(r.d.Assertions[i].Sign == 1, "C01/flow/unsigned-response-needs-signed-assertion")
	}
}

// Harness_C02_flow: Response-level IssueInstant freshness.
func Harness_C02_flow() {
	r := spFlowScenario(1, false)
	if r.err != nil {
		verifReach("rejected")
		return
	}
	verifReach("accepted")
	verifAssert(verifNotAfter(r.now, r.d.R.IssueInstant.Add(MaxIssueDelay)), "C02/flow/response-issue-delay")
	if r.a != nil {
		verifAssert(verifNotAfter(r.now, r.a.IssueInstant.Add(MaxIssueDelay)), "C02/flow/assertion-issue-delay")
	}
}

// Harness_C03_flow: Response-level Destination, Issuer and Status.
func Harness_C03_flow() {
	r := spFlowScenario(1, false)
	R := r.d.R
	if r.err != nil {
		verifReach("rejected")
		return
	}
	verifReach("accepted")
	verifAssert(verifOr(R.Issuer == nil, R.Issuer != nil && R.Issuer.Value == r.sp.IDPMetadata.EntityID), "C03/flow/response-issuer")
	verifAssert(R.Status.StatusCode.Value == StatusSuccess, "C03/flow/status-success")
	destOK := verifOr(R.Destination == r.cur.String(), R.Destination == r.sp.AcsURL.String())
	if r.d.SignResponse != 0 {
		verifReach("accepted-signed-response")
		verifAssert(destOK, "C03/flow/destination-mandatory-when-signed")
	} else {
		verifAssert(verifOr(R.Destination == "", destOK), "C03/flow/destination-checked-when-present")
	}
}

// Harness_C04_flow: Response-level InResponseTo.
func Harness_C04_flow() {
	r := spFlowScenario(1, false)
	if r.err != nil {
		verifReach("rejected")
		return
	}
	verifReach("accepted")
	if r.idHook {
		verifReach("accepted-with-hook")
		verifAssert(r.idErr == nil, "C04/flow/request-id-hook-verdict")
		return
	}
	if r.sp.AllowIDPInitiated {
		return
	}
	verifAssert(verifInIDs(r.d.R.InResponseTo, r.ids), "C04/flow/response-in-response-to")
	verifAssert(len(r.ids) > 0, "C04/flow/no-outstanding-ids-nothing-accepted")
}

// Harness_C09_flow: ParseXMLResponse never panics; assertion nil exactly when
// the error is non-nil; the error is an *InvalidResponseError with the constant message.
func Harness_C09_flow() {
	r := spFlowScenario(1, false)
	verifReach("returned")
	verifAssert((r.a == nil) == (r.err != nil), "C09/flow/assertion-nil-iff-error")
	if r.err != nil {
		ire, ok := r.err.(*InvalidResponseError)
		verifAssert(ok, "C09/flow/error-is-InvalidResponseError")
		if ok {
			verifAssert(ire.Error() == "Authentication failed", "C09/flow/constant-message")
			verifAssert(ire.PrivateErr != nil, "C09/flow/detail-in-private-field")
		}
	}
}

// Harness_C01_trust: the three trust configurations (IdP metadata, certificate fingerprint, pinned
// certificate) against every signing layout and every KeyInfo layout (the signer's certificate, none,
// signer+other, other+signer): an assertion is returned only under a signature of the trusted key.
func Harness_C01_trust() {
	r := &spFlowRun{}
	r.sp = verifSP("sp")
	mode := verifChoose("trust.mode", 4)
	switch mode {
	case 3:
		// metadata with two signing certificates (key rollover): both (0,0) and (0,2) are trusted, (0,1) is not
		d := &r.sp.IDPMetadata.IDPSSODescriptors[0]
		d.KeyDescriptors = append(d.KeyDescriptors, KeyDescriptor{
			Use:     "signing",
			KeyInfo: KeyInfo{X509Data: X509Data{X509Certificates: []X509Certificate{{Data: verifTestCertB64(0, 2)}}}},
		})
	case 1:
		alg := "http://www.w3.org/2001/04/xmlenc#sha256"
		fp, err := fingerprint(verifTestCert(0, 0), alg)
		if err != nil {
			return
		}
		r.sp.IDPCertificateFingerprint, r.sp.IDPCertificateFingerprintAlgorithm = &fp, &alg
	case 2:
		pinned := verifTestCertB64(0, 0)
		r.sp.IDPCertificate = &pinned
	}
	verifTolerances()
	verifAssume(MaxClockSkew < time.Hour)
	r.now = verifNondetTime("now")
	verifAssume(r.now.After(time.Unix(0, 0)))
	now := r.now
	TimeNow = func() time.Time { return now }
	r.ids = []string{"id-request"}
	r.cur = r.sp.AcsURL
	r.d = verifValidDoc("doc", 1, r.sp, r.ids, r.now, true)
	if r.d.SignResponse != 0 {
		r.d.KeyInfo = verifChoose("doc.KeyInfo", 4)
	}
	for i := range r.d.Assertions {
		if r.d.Assertions[i].Sign != 0 {
			r.d.Assertions[i].KeyInfo = verifChoose("doc.A.KeyInfo", 4)
		}
	}
	r.a, r.err = r.sp.ParseXMLResponse(verifMaterialise(r.d), r.ids, r.cur)
	verifNote("err", r.err)
	if r.err != nil {
		verifReach("rejected")
		return
	}
	verifReach("accepted")
	if mode == 1 {
		verifReach("accepted-by-fingerprint")
	}
	if mode == 2 {
		verifReach("accepted-by-pinned-certificate")
	}
	if mode == 3 {
		verifReach("accepted-with-two-signing-certificates")
	}
	verifAssert(r.a != nil && len(r.d.Assertions) == 1, "C01/trust/returned-assertion-is-from-the-document")
	if r.a == nil || len(r.d.Assertions) != 1 {
		return
	}
	verifAssert(r.d.SignResponse != 2, "C01/trust/untrusted-response-signature-rejects")
	verifAssert(r.d.Assertions[0].Sign == 1 || r.d.SignResponse == 1, "C01/trust/covered-by-trusted-signature")
}

// Harness_C01_encrypted: one assertion delivered as an EncryptedAssertion - encrypted to the SP's
// certificate (which needs no secret) or to another certificate - in every signing layout. The
// decrypted assertion is subject to exactly the checks a plaintext one gets: it is returned only
// under a trusted signature (its own, inside the ciphertext, or the Response's), and ciphertext the
// SP cannot decrypt is a validation failure.
func Harness_C01_encrypted() {
	r := &spFlowRun{}
	r.sp = verifSP("sp")
	r.sp.Key = verifTestSigner(0, 2)
	verifTolerances()
	verifAssume(MaxClockSkew < time.Hour)
	r.now = verifNondetTime("now")
	verifAssume(r.now.After(time.Unix(0, 0)))
	now := r.now
	TimeNow = func() time.Time { return now }
	r.ids = []string{"id-request"}
	r.cur = r.sp.AcsURL
	r.d = verifValidDoc("doc", 1, r.sp, r.ids, r.now, true)
	if len(r.d.Assertions) != 1 {
		return
	}
	r.d.Assertions[0].Encrypt = 1 + verifChoose("doc.A0.EncryptTo", 2)
	r.d.Assertions[0].Retrieval = verifChoose("doc.A0.Retrieval", 1+len(verifRetrievalURIs))
	r.a, r.err = r.sp.ParseXMLResponse(verifMaterialise(r.d), r.ids, r.cur)
	verifNote("err", r.err)
	if r.err != nil {
		verifReach("rejected")
		verifAssert(r.a == nil, "C09/encrypted/error-without-assertion")
		return
	}
	verifReach("accepted")
	verifAssert(r.a != nil, "C01+C08/encrypted/accepted-has-assertion")
	if r.a == nil {
		return
	}
	A := r.d.Assertions[0]
	verifAssert(r.a.ID == A.A.ID, "C01+C08/encrypted/returned-assertion-is-from-the-document")
	verifAssert(A.Encrypt == 1, "C01+C08/encrypted/undecryptable-ciphertext-is-rejected")
	verifAssert(r.d.SignResponse != 2, "C01+C08/encrypted/untrusted-response-signature-rejects")
	verifAssert(A.Sign == 1 || r.d.SignResponse == 1, "C01+C08/encrypted/covered-by-trusted-signature")
	if A.Sign == 1 && r.d.SignResponse == 0 {
		verifReach("accepted-by-inner-signature")
	}
	if A.Sign == 0 && r.d.SignResponse == 1 {
		verifReach("accepted-by-response-signature")
	}
}

// Harness_C03_destination: the Destination rule on concrete URLs - the ACS URL, the URL at which the
// response was received given in origin form (what net/http hands a handler) or in absolute form, and
// Destinations on the right host, on another host with the same path, relative, or absent - for a
// signed and an unsigned Response around a signed assertion.
func Harness_C03_destination() {
	r := &spFlowRun{}
	r.sp = verifSP("sp")
	acs, perr := url.Parse("https://sp.example.com/saml2/acs")
	verifAssume(perr == nil)
	r.sp.AcsURL = *acs
	verifTolerances()
	verifAssume(MaxClockSkew < time.Hour)
	r.now = verifNondetTime("now")
	verifAssume(r.now.After(time.Unix(0, 0)))
	now := r.now
	TimeNow = func() time.Time { return now }
	r.ids = []string{"id-request"}
	curs := []string{"/saml2/acs", "https://sp.example.com/saml2/acs", "/saml2/acs?x=1", "https://proxy.example.net/saml2/acs"}
	cur, cerr := url.Parse(curs[verifChoose("currentURL", len(curs))])
	verifAssume(cerr == nil)
	r.cur = *cur
	r.d = verifValidDoc("doc", 1, r.sp, r.ids, r.now, true)
	if len(r.d.Assertions) != 1 {
		return
	}
	r.d.Assertions[0].Sign = 1
	dests := []string{"https://sp.example.com/saml2/acs", "https://attacker.example.com/saml2/acs", "http://sp.example.com/saml2/acs", "/saml2/acs", "https://proxy.example.net/saml2/acs", ""}
	r.d.R.Destination = dests[verifChoose("destination", len(dests))]
	r.a, r.err = r.sp.ParseXMLResponse(verifMaterialise(r.d), r.ids, r.cur)
	verifNote("err", r.err)
	if r.err != nil {
		verifReach("rejected")
		return
	}
	verifReach("accepted")
	dest := r.d.R.Destination
	destOK := dest == r.cur.String() || dest == r.sp.AcsURL.String()
	if r.d.SignResponse != 0 {
		verifAssert(destOK, "C03/destination/mandatory-and-exact-when-signed")
	} else {
		verifAssert(dest == "" || destOK, "C03/destination/exact-when-present")
	}
}
