//go:build verif

package saml

import (
	"bytes"
	"os"
	"strconv"
)

// verifKeyDescriptors builds 0..max key descriptors with arbitrary Use and 0..2
// certificates each; a certificate text is arbitrary, empty, or one of two real certificates.
func verifKeyDescriptors(tag string, max int) []KeyDescriptor {
	n := verifChoose(tag+".n", max+1)
	kds := make([]KeyDescriptor, 0, n)
	for i := 0; i < n; i++ {
		t := tag + strconv.Itoa(i)
		kd := KeyDescriptor{}
		switch verifChoose(t+".use", 4) {
		case 0:
			kd.Use = "encryption"
		case 1:
			kd.Use = "signing"
		case 2:
			kd.Use = verifNondetString(t + ".Use")
			verifAssume(kd.Use != "encryption")
			verifAssume(kd.Use != "")
		}
		if verifChoose(t+".encmethods", 2) == 1 {
			// a list of preferred algorithms does not make the key any less advertised
			kd.EncryptionMethods = []EncryptionMethod{{Algorithm: verifNondetString(t + ".encmethod")}}
		}
		nc := verifChoose(t+".ncerts", 3)
		for j := 0; j < nc; j++ {
			tt := t + "." + strconv.Itoa(j)
			data := ""
			switch verifChoose(tt+".kind", 4) {
			case 0:
				data = verifNondetString(tt + ".Data")
				verifAssume(data != "")
				verifAssume(data != verifTestCertB64(0, 0))
				verifAssume(data != verifTestCertB64(0, 1))
			case 1:
				data = verifTestCertB64(0, 0)
			case 2:
				data = verifTestCertB64(0, 1)
			}
			kd.KeyInfo.X509Data.X509Certificates = append(kd.KeyInfo.X509Data.X509Certificates, X509Certificate{Data: data})
		}
		kds = append(kds, kd)
	}
	return kds
}

func verifFirstCertData(kd *KeyDescriptor) string {
	if len(kd.KeyInfo.X509Data.X509Certificates) == 0 {
		return ""
	}
	return kd.KeyInfo.X509Data.X509Certificates[0].Data
}

// Harness_C08_certselect: getSPEncryptionCert reports "no key" exactly when the
// metadata advertises none, never panics, and otherwise returns the advertised
// certificate or a hard error - never a silent "no key".
func Harness_C08_certselect() {
	kds := verifKeyDescriptors("kd", verifParam("kd.max", 2))
	// at most one descriptor is labelled for encryption (several are ambiguous and outside the claim)
	nEnc := 0
	for i := range kds {
		if kds[i].Use == "encryption" {
			nEnc++
		}
	}
	verifAssume(nEnc <= 1)
	req := &IdpAuthnRequest{SPSSODescriptor: &SPSSODescriptor{}}
	req.SPSSODescriptor.KeyDescriptors = kds

	cert, err := req.getSPEncryptionCert()
	verifReach("returned")

	// the advertised certificate text, by the documented preference
	want := ""
	for i := range kds {
		if kds[i].Use == "encryption" {
			want = verifFirstCertData(&kds[i])
		}
	}
	if want == "" {
		for i := range kds {
			if kds[i].Use == "" && verifFirstCertData(&kds[i]) != "" {
				want = verifFirstCertData(&kds[i])
				break
			}
		}
	}
	if want == "" {
		verifReach("nothing-advertised")
		verifAssert(err == os.ErrNotExist, "C08/certselect/nothing-advertised-is-ErrNotExist")
		verifAssert(cert == nil, "C08/certselect/nothing-advertised-no-cert")
		return
	}
	verifReach("advertised")
	verifAssert(err != os.ErrNotExist, "C08/certselect/advertised-key-never-reported-absent")
	if err == nil {
		verifAssert(cert != nil, "C08/certselect/success-has-cert")
		if cert != nil && want == verifTestCertB64(0, 0) {
			verifReach("real-cert-selected")
			verifAssert(bytes.Equal(cert.Raw, verifTestCert(0, 0).Raw), "C08/certselect/selected-is-advertised-cert")
		}
		if cert != nil && want == verifTestCertB64(0, 1) {
			verifAssert(bytes.Equal(cert.Raw, verifTestCert(0, 1).Raw), "C08/certselect/selected-is-advertised-cert")
		}
	} else {
		verifAssert(cert == nil, "C08/certselect/error-has-no-cert")
	}
}
