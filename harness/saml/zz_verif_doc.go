//go:build verif

package saml

import (
	"strconv"
	"time"
)

// A verifDoc describes a SAML Response document: the Response value, whether
// and by whom the Response element is signed, and 0..n assertions, each with
// its own signing choice. verifMaterialise turns it into document bytes:
// natively with the repository's Element() builders and goxmldsig signatures
// made with real test keys; symbolically as an element tree whose unmarshalled
// values are the given structs and whose signatures carry their signer.
//
// Signing choices: 0 = unsigned, 1 = signed by the trusted IdP key (key 0),
// 2 = signed by an untrusted key (key 1).
// KeyInfo layouts of a signature: 0 = the signer's certificate (what goxmldsig emits), 1 = no KeyInfo,
// 2 = [signer, the other test certificate], 3 = [the other test certificate, signer].
// Encrypt: 0 = plaintext, 1 = EncryptedAssertion to the SP's certificate (test key 2; needs no secret),
// 2 = EncryptedAssertion to another certificate (test key 3; the SP cannot decrypt it).
// Retrieval (encrypted assertions only): 0 = none, else a <ds:RetrievalMethod URI=...> inside the EncryptedData's
// KeyInfo whose URI is verifRetrievalURIs[Retrieval-1] (a plain fragment, and fragments carrying path metacharacters).
type verifDocAssertion struct {
	A         *Assertion
	Sign      int
	KeyInfo   int
	Encrypt   int
	Retrieval int
}

var verifRetrievalURIs = []string{"#k1", "#'", "#k[1"}

type verifDoc struct {
	R            *Response
	SignResponse int
	KeyInfo      int
	Assertions   []verifDocAssertion
}

// A verifArtifactDoc is a SOAP envelope around an ArtifactResponse (arbitrary fields, its own
// signing choice) around a Response document.
type verifArtifactDoc struct {
	AR      *ArtifactResponse
	SignAR  int
	KeyInfo int
	D       *verifDoc
}

// verifTrustedIDPMetadata is IdP metadata whose only signing certificate is test certificate (0,0);
// its encryption certificate is test certificate (0,1), the key the "untrusted" signatures are made with.
func verifTrustedIDPMetadata(entityID string) *EntityDescriptor {
	return &EntityDescriptor{
		EntityID: entityID,
		IDPSSODescriptors: []IDPSSODescriptor{{
			SSODescriptor: SSODescriptor{RoleDescriptor: RoleDescriptor{KeyDescriptors: []KeyDescriptor{
				{
					Use:     "signing",
					KeyInfo: KeyInfo{X509Data: X509Data{X509Certificates: []X509Certificate{{Data: verifTestCertB64(0, 0)}}}},
				},
				{
					// the IdP's encryption certificate belongs to another key: it must never become a signing root
					Use:     "encryption",
					KeyInfo: KeyInfo{X509Data: X509Data{X509Certificates: []X509Certificate{{Data: verifTestCertB64(0, 1)}}}},
				},
			}}},
		}},
	}
}

// verifPlainStrings blanks the optional fields of an assertion that no check
// reads, so that the document stays small.
func verifTrimAssertion(a *Assertion) {
	a.Signature = nil
	a.AuthnStatements = nil
	a.AttributeStatements = nil
	a.Issuer.NameQualifier, a.Issuer.SPNameQualifier, a.Issuer.Format, a.Issuer.SPProvidedID = "", "", "", ""
	if a.Subject != nil {
		a.Subject.NameID = nil
		for i := range a.Subject.SubjectConfirmations {
			a.Subject.SubjectConfirmations[i].NameID = nil
		}
	}
	if a.Conditions != nil {
		a.Conditions.OneTimeUse = nil
		a.Conditions.ProxyRestriction = nil
	}
}

func verifTrimResponse(r *Response) {
	r.Signature = nil
	r.EncryptedAssertion = nil
	r.Assertion = nil
	r.Consent = ""
	r.Status.StatusMessage = nil
	r.Status.StatusDetail = nil
	if verifParam("status.nested", 0) == 1 {
		// a second-level status code may be present (its own nesting is cut)
		if sc := r.Status.StatusCode.StatusCode; sc != nil {
			sc.StatusCode = nil
		}
	} else {
		r.Status.StatusCode.StatusCode = nil
	}
	if r.Issuer != nil {
		r.Issuer.NameQualifier, r.Issuer.SPNameQualifier, r.Issuer.Format, r.Issuer.SPProvidedID = "", "", "", ""
	}
}

// verifResponseDoc builds an arbitrary document with 0..maxAssertions assertions.
func verifResponseDoc(tag string, maxAssertions int) *verifDoc {
	d := &verifDoc{R: &Response{}}
	verifHavoc(tag+".R", d.R)
	verifTrimResponse(d.R)
	d.SignResponse = verifChoose(tag+".SignResponse", 3)
	n := verifChoose(tag+".nAssertions", maxAssertions+1)
	for i := 0; i < n; i++ {
		a := &Assertion{}
		verifHavoc(tag+".A"+strconv.Itoa(i), a)
		verifTrimAssertion(a)
		d.Assertions = append(d.Assertions, verifDocAssertion{A: a, Sign: verifChoose(tag+".SignA"+strconv.Itoa(i), 3)})
	}
	return d
}

// verifValidAssertion returns an assertion that satisfies every assertion-level
// condition for this SP, clock and outstanding IDs by construction (the
// assertion-level conditions themselves are the subject of the struct-level harnesses).
func verifValidAssertion(tag string, sp *ServiceProvider, ids []string, now time.Time) *Assertion {
	inResponseTo := ""
	if len(ids) > 0 {
		inResponseTo = ids[0]
	}
	return &Assertion{
		ID:           verifNondetString(tag + ".ID"),
		IssueInstant: now,
		Version:      "2.0",
		Issuer:       Issuer{Value: sp.IDPMetadata.EntityID},
		Subject: &Subject{
			SubjectConfirmations: []SubjectConfirmation{{
				Method: "urn:oasis:names:tc:SAML:2.0:cm:bearer",
				SubjectConfirmationData: &SubjectConfirmationData{
					NotOnOrAfter: now.Add(time.Hour),
					Recipient:    sp.AcsURL.String(),
					InResponseTo: inResponseTo,
				},
			}},
		},
		Conditions: &Conditions{
			NotBefore:    now.Add(-time.Hour),
			NotOnOrAfter: now.Add(time.Hour),
		},
	}
}

// verifValidDoc: arbitrary Response-level fields and signing layout around 0..max assertions
// that are valid by construction, or (choice) expired.
func verifValidDoc(tag string, maxAssertions int, sp *ServiceProvider, ids []string, now time.Time, validResponse bool) *verifDoc {
	d := &verifDoc{R: &Response{}}
	if validResponse {
		d.R.ID = verifNondetString(tag + ".R.ID")
		d.R.Version = "2.0"
		d.R.IssueInstant = now
		d.R.Destination = sp.AcsURL.String()
		if len(ids) > 0 {
			d.R.InResponseTo = ids[0]
		}
		d.R.Status.StatusCode.Value = StatusSuccess
	} else {
		verifHavoc(tag+".R", d.R)
		verifTrimResponse(d.R)
	}
	d.SignResponse = verifChoose(tag+".SignResponse", 3)
	n := verifChoose(tag+".nAssertions", maxAssertions+1)
	for i := 0; i < n; i++ {
		t := tag + ".A" + strconv.Itoa(i)
		a := verifValidAssertion(t, sp, ids, now)
		if verifChoose(t+".expired", 2) == 1 {
			a.Conditions.NotOnOrAfter = now.Add(-2 * time.Hour)
		}
		d.Assertions = append(d.Assertions, verifDocAssertion{A: a, Sign: verifChoose(t+".Sign", 3)})
	}
	return d
}
