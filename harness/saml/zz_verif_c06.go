//go:build verif

package saml

import (
	"crypto"
	"io"
	"net/http"
	"strconv"
	"time"

	"github.com/beevik/etree"
	"github.com/crewjam/saml/xmlenc"
)

// idpScenario: an IdpAuthnRequest as a successful Validate (or an IdP-initiated
// launch) leaves it: request, registry entry and selected endpoint are
// independent symbolic values.
type idpRun struct {
	idp     *IdentityProvider
	req     *IdpAuthnRequest
	session *Session
	now     time.Time
	drawn   []byte
	calls   int
}

func idpScenario(keyLayout int, fullSession bool, vary bool) *idpRun {
	r := &idpRun{}
	verifTolerances()
	r.now = verifNondetTimeMs("now")
	now := r.now
	TimeNow = func() time.Time { return now }
	rr := verifRandReader{&r.drawn, &r.calls}
	RandReader = rr
	xmlenc.RandReader = rr
	r.idp = &IdentityProvider{Certificate: verifTestCert(0, 0)}
	if vary && verifChoose("idp.signer", 2) == 1 {
		r.idp.Signer = verifTestSigner(0, 0)
	} else {
		r.idp.Key = verifTestSigner(0, 0)
	}
	r.idp.MetadataURL = verifNondetURL("idp.MetadataURL")
	r.idp.SSOURL = verifNondetURL("idp.SSOURL")
	r.req = &IdpAuthnRequest{IDP: r.idp, Now: r.now, HTTPRequest: &http.Request{RemoteAddr: verifNondetString("remoteAddr")}}
	r.req.RelayState = verifNondetString("relayState")
	if !vary || verifChoose("idpInitiated", 2) == 0 {
		// everything in the request is the requester's to choose (the IdP does not verify request signatures):
		// all fields arbitrary, optional elements present or absent
		verifHavoc("request", &r.req.Request)
		r.req.Request.Signature = nil
		r.req.Request.ID = verifNondetString("request.ID")
		r.req.Request.IssueInstant = verifNondetTimeMs("request.IssueInstant")
		r.req.Request.AssertionConsumerServiceURL = verifNondetString("request.ACSURL")
	}
	r.req.ServiceProviderMetadata = &EntityDescriptor{EntityID: verifNondetString("sp.EntityID")}
	r.req.SPSSODescriptor = &SPSSODescriptor{}
	if verifParam("sp.wantsigned", 0) == 1 && verifChoose("sp.WantAssertionsSigned.false", 2) == 1 {
		// what the SP says it wants does not change what the IdP owes: both elements are signed
		no := false
		r.req.SPSSODescriptor.WantAssertionsSigned = &no
	}
	switch keyLayout {
	case 1: // advertises a real encryption certificate
		r.req.SPSSODescriptor.KeyDescriptors = []KeyDescriptor{{Use: "encryption", KeyInfo: KeyInfo{X509Data: X509Data{X509Certificates: []X509Certificate{{Data: verifTestCertB64(0, 1)}}}}}}
	case 2: // advertises a certificate that does not decode
		r.req.SPSSODescriptor.KeyDescriptors = []KeyDescriptor{{Use: "encryption", KeyInfo: KeyInfo{X509Data: X509Data{X509Certificates: []X509Certificate{{Data: "%%% not a certificate %%%"}}}}}}
	case 3: // signing key only
		r.req.SPSSODescriptor.KeyDescriptors = []KeyDescriptor{{Use: "signing", KeyInfo: KeyInfo{X509Data: X509Data{X509Certificates: []X509Certificate{{Data: verifTestCertB64(0, 1)}}}}}}
	case 4: // use omitted: any-purpose key
		r.req.SPSSODescriptor.KeyDescriptors = []KeyDescriptor{{KeyInfo: KeyInfo{X509Data: X509Data{X509Certificates: []X509Certificate{{Data: verifTestCertB64(0, 1)}}}}}}
	case 5: // encryption certificate whose descriptor lists the algorithms the SP prefers (whatever the list, the key is advertised)
		lists := [][]EncryptionMethod{
			{{Algorithm: "http://www.w3.org/2001/04/xmlenc#aes128-cbc"}},
			{{Algorithm: "http://www.w3.org/2001/04/xmlenc#aes256-cbc"}},
			{{Algorithm: "http://www.w3.org/2009/xmlenc11#aes128-gcm"}, {Algorithm: "http://www.w3.org/2001/04/xmlenc#rsa-oaep-mgf1p"}},
		}
		ems := lists[verifChoose("encmethods", len(lists))]
		r.req.SPSSODescriptor.KeyDescriptors = []KeyDescriptor{{Use: "encryption", EncryptionMethods: ems, KeyInfo: KeyInfo{X509Data: X509Data{X509Certificates: []X509Certificate{{Data: verifTestCertB64(0, 1)}}}}}}
	}
	r.req.ACSEndpoint = &IndexedEndpoint{Location: verifNondetString("acs.Location"), Binding: HTTPPostBinding}
	if vary && verifChoose("acs.binding", 2) == 1 {
		r.req.ACSEndpoint.Binding = verifNondetString("acs.Binding")
	}
	r.session = &Session{
		ID:       verifNondetString("session.ID"),
		Index:    verifNondetString("session.Index"),
		NameID:   verifNondetString("session.NameID"),
		UserName: verifNondetString("session.UserName"),
	}
	if !vary && !fullSession {
		// element-level harness: the strings no scoping clause reads are fixed (each optional attribute doubles the paths)
		r.req.HTTPRequest.RemoteAddr = "192.0.2.1"
		r.session.ID, r.session.Index, r.session.UserName = "session-id", "session-index", ""
	}
	if fullSession {
		verifHavoc("session", r.session)
		if verifParam("session.few", 1) == 1 {
			// quick tier: five of the optional user fields are absent (each present field doubles the paths)
			r.session.UserCommonName, r.session.UserSurname, r.session.UserGivenName = "", "", ""
			r.session.UserScopedAffiliation, r.session.SubjectID = "", ""
		}
	}
	return r
}

// Harness_C06_assertion: the assertion built for a session is scoped to the
// selected endpoint, the registered SP, the request and the moment.
func Harness_C06_assertion() {
	r := idpScenario(0, false, true)
	err := DefaultAssertionMaker{}.MakeAssertion(r.req, r.session)
	verifAssert(err == nil, "C06/assertion/made")
	a := r.req.Assertion
	if err != nil || a == nil {
		return
	}
	verifReach("made")
	idpID := r.idp.MetadataURL.String()
	verifAssert(a.Issuer.Value == idpID, "C06/assertion/issuer-is-idp")
	verifAssert(a.IssueInstant.Equal(r.now), "C06/assertion/issue-instant")
	verifAssert(a.Subject != nil && a.Subject.NameID != nil, "C06/assertion/subject")
	if a.Subject == nil || a.Subject.NameID == nil {
		return
	}
	verifAssert(a.Subject.NameID.Value == r.session.NameID, "C06/assertion/nameid-is-session-nameid")
	verifAssert(a.Subject.NameID.SPNameQualifier == r.req.ServiceProviderMetadata.EntityID, "C06/assertion/sp-name-qualifier")
	verifAssert(len(a.Subject.SubjectConfirmations) == 1, "C06/assertion/one-bearer-confirmation")
	if len(a.Subject.SubjectConfirmations) == 1 {
		scd := a.Subject.SubjectConfirmations[0].SubjectConfirmationData
		verifAssert(scd != nil, "C06/assertion/confirmation-data")
		if scd != nil {
			verifAssert(scd.Recipient == r.req.ACSEndpoint.Location, "C06/assertion/recipient-is-selected-endpoint")
			verifAssert(scd.InResponseTo == r.req.Request.ID, "C06/assertion/in-response-to")
			verifAssert(scd.NotOnOrAfter.Equal(r.now.Add(MaxIssueDelay)), "C06/assertion/bearer-expires-after-max-issue-delay")
		}
	}
	verifAssert(a.Conditions != nil, "C06/assertion/conditions")
	if a.Conditions != nil {
		verifAssert(!a.Conditions.NotBefore.Before(r.now.Add(-MaxClockSkew)), "C06/assertion/not-before-within-skew")
		verifAssert(len(a.Conditions.AudienceRestrictions) == 1, "C06/assertion/one-audience")
		if len(a.Conditions.AudienceRestrictions) == 1 {
			verifAssert(a.Conditions.AudienceRestrictions[0].Audience.Value == r.req.ServiceProviderMetadata.EntityID, "C06/assertion/audience-is-registered-sp")
		}
	}
	if len(r.drawn) >= 16 {
		verifAssert(a.ID == "id-"+verifHex(r.drawn), "C06/assertion/id-from-random-source")
	}
	verifAssert(len(r.drawn) >= 16, "C06/assertion/id-has-128-bits")
}

func verifSessionStrings(s *Session, v string) bool {
	ok := verifOr(v == s.UserName, v == s.UserEmail)
	ok = verifOr(ok, v == s.UserCommonName)
	ok = verifOr(ok, v == s.UserSurname)
	ok = verifOr(ok, v == s.UserGivenName)
	ok = verifOr(ok, v == s.UserScopedAffiliation)
	ok = verifOr(ok, v == s.EduPersonPrincipalName)
	ok = verifOr(ok, v == s.SubjectID)
	for i := range s.Groups {
		ok = verifOr(ok, v == s.Groups[i])
	}
	for i := range s.CustomAttributes {
		for j := range s.CustomAttributes[i].Values {
			ok = verifOr(ok, v == s.CustomAttributes[i].Values[j].Value)
		}
	}
	return ok
}

// Harness_C06_attributes: every attribute value of the assertion is one of the
// authenticated session's strings (no requested-attribute or request data leaks in).
func Harness_C06_attributes() {
	r := idpScenario(0, true, false)
	names := []string{"email", "e-mail", "cn", "uid", "surname", "given-name", "department"}
	n := verifChoose("requested.n", verifParam("requested.max", 1)+1)
	if n > 0 {
		acs := AttributeConsumingService{}
		for i := 0; i < n; i++ {
			ra := RequestedAttribute{Attribute: Attribute{
				Name:         names[verifChoose("requested."+strconv.Itoa(i)+".name", len(names))],
				FriendlyName: verifNondetString("requested." + strconv.Itoa(i) + ".friendly"),
				NameFormat:   "urn:oasis:names:tc:SAML:2.0:attrname-format:basic",
			}}
			// the registered metadata may list values on a requested attribute (saml-metadata 2.4.4.2): they are the SP's, not the user's
			if verifChoose("requested."+strconv.Itoa(i)+".hasvalue", 2) == 1 {
				ra.Values = []AttributeValue{{Type: "xs:string", Value: verifNondetString("requested." + strconv.Itoa(i) + ".mdvalue")}}
			}
			acs.RequestedAttributes = append(acs.RequestedAttributes, ra)
		}
		r.req.SPSSODescriptor.AttributeConsumingServices = []AttributeConsumingService{acs}
	}
	err := DefaultAssertionMaker{}.MakeAssertion(r.req, r.session)
	if err != nil || r.req.Assertion == nil {
		verifAssert(false, "C06/attributes/made")
		return
	}
	verifReach("made")
	a := r.req.Assertion
	for i := range a.AttributeStatements {
		for j := range a.AttributeStatements[i].Attributes {
			at := &a.AttributeStatements[i].Attributes[j]
			for k := range at.Values {
				verifReach("attribute-value")
				verifAssert(verifSessionStrings(r.session, at.Values[k].Value), "C06/attributes/value-comes-from-session")
			}
		}
	}
	if a.Subject != nil && a.Subject.NameID != nil {
		verifAssert(a.Subject.NameID.Value == r.session.NameID, "C06/attributes/nameid-is-session-nameid")
	}
}

func verifChildByTag(el *etree.Element, tag string) *etree.Element {
	for _, c := range el.ChildElements() {
		if c.Tag == tag {
			return c
		}
	}
	return nil
}

// Harness_C06_response: the emitted response element and POST form.
func Harness_C06_response() {
	r := idpScenario(0, false, false)
	if verifChoose("idp.signer", 2) == 1 {
		r.idp.Signer, r.idp.Key = r.idp.Key.(interface {
			Public() crypto.PublicKey
			Sign(rand io.Reader, digest []byte, opts crypto.SignerOpts) ([]byte, error)
		}), nil
	}
	if verifChoose("idpInitiated", 2) == 1 {
		r.req.Request = AuthnRequest{}
	}
	if verifChoose("acs.binding", 2) == 1 {
		r.req.ACSEndpoint.Binding = verifNondetString("acs.Binding")
	}
	if err := (DefaultAssertionMaker{}).MakeAssertion(r.req, r.session); err != nil {
		return
	}
	form, err := r.req.PostBinding()
	verifNote("postbinding.err", err)
	if err != nil {
		verifReach("refused")
		// the only legitimate refusals: a non-POST endpoint, or a failing random source / signer
		return
	}
	verifReach("emitted")
	verifAssert(r.req.ACSEndpoint.Binding == HTTPPostBinding, "C06/response/only-post-endpoints")
	verifAssert(form.URL == r.req.ACSEndpoint.Location, "C06/response/form-targets-selected-endpoint")
	verifAssert(form.RelayState == r.req.RelayState, "C06/response/relay-state-echoed")
	el := r.req.ResponseEl
	verifAssert(el != nil, "C06/response/element")
	if el == nil {
		return
	}
	verifAssert(el.Tag == "Response", "C06/response/tag")
	verifAssert(el.SelectAttrValue("Destination", "") == r.req.ACSEndpoint.Location, "C06/response/destination-is-selected-endpoint")
	if r.req.Request.ID != "" {
		verifAssert(el.SelectAttrValue("InResponseTo", "") == r.req.Request.ID, "C06/response/in-response-to")
	} else {
		verifAssert(el.SelectAttr("InResponseTo") == nil, "C06/response/in-response-to-absent-for-idp-initiated")
	}
	issuer := verifChildByTag(el, "Issuer")
	verifAssert(issuer != nil, "C06/response/issuer-present")
	if issuer != nil {
		verifAssert(issuer.Text() == r.idp.MetadataURL.String(), "C06/response/issuer-is-idp")
	}
	verifAssert(verifSignedBy(el, 0, 0), "C06/response/signed-by-idp-key")
	asrt := verifChildByTag(el, "Assertion")
	verifAssert(asrt != nil, "C06/response/plaintext-assertion-when-no-sp-key")
	if asrt != nil {
		verifAssert(verifSignedBy(asrt, 0, 0), "C06/response/assertion-signed-by-idp-key")
		verifAssert(asrt.SelectAttrValue("ID", "") == r.req.Assertion.ID, "C06/response/assertion-is-the-made-assertion")
	}
}
