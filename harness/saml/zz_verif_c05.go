//go:build verif

package saml

import (
	"net/http"
	"net/url"
	"os"
	"strconv"
	"time"
)

type verifRegistryErr struct{}

func (verifRegistryErr) Error() string { return "verif: registry failure" }

// verifSPProvider is the provider registry: found / unknown / other failure, chosen by the solver.
type verifSPProvider struct {
	asked   *[]string
	outcome *int
	md      *EntityDescriptor
}

func (p verifSPProvider) GetServiceProvider(_ *http.Request, id string) (*EntityDescriptor, error) {
	*p.asked = append(*p.asked, id)
	switch verifChoose("registry", 3) {
	case 0:
		*p.outcome = 0
		return p.md, nil
	case 1:
		*p.outcome = 1
		return nil, os.ErrNotExist
	}
	*p.outcome = 2
	return nil, verifRegistryErr{}
}

func verifBrowserBinding(b string) bool {
	return verifOr(b == HTTPPostBinding, b == HTTPRedirectBinding)
}

// Harness_C05_validate: IdpAuthnRequest.Validate on an arbitrary request
// against arbitrary registry contents.
func Harness_C05_validate() {
	idp := &IdentityProvider{Key: verifTestSigner(0, 0), Certificate: verifTestCert(0, 0)}
	overHTTP := verifChoose("http.request", 2) == 1
	if !overHTTP {
		idp.SSOURL = verifNondetURL("idp.SSOURL")
	}
	idp.MetadataURL = verifNondetURL("idp.MetadataURL")
	md := &EntityDescriptor{}
	verifHavoc("md", md)
	var asked []string
	outcome := -1
	idp.ServiceProviderProvider = verifSPProvider{&asked, &outcome, md}
	verifTolerances()
	now := verifNondetTime("now")
	TimeNow = func() time.Time { return now }
	ar := &AuthnRequest{}
	verifHavoc("ar", ar)
	req := &IdpAuthnRequest{IDP: idp, Now: now, RequestBuffer: verifMarshalXML(ar)}
	if overHTTP {
		// the request as received over HTTP: the Host header is whatever the sender wrote
		// (the IdP's own name or another one), the SSO URL a concrete one
		u, perr := url.Parse("https://idp.example.com/saml/sso")
		if perr != nil {
			return
		}
		idp.SSOURL = *u
		hr := verifRequest("GET", "https://idp.example.com/saml/sso", nil, nil)
		hr.Host = []string{"idp.example.com", "idp.other-tenant.example", "sp.example.net:8443"}[verifChoose("http.host", 3)]
		req.HTTPRequest = hr
		verifReach("received-over-http")
	}

	err := req.Validate()
	if err != nil {
		verifReach("rejected")
		return
	}
	verifReach("validated")
	r := &req.Request
	// vacuity guard for the priority clause: the case where index and URL name different registered endpoints is explored
	if len(md.SPSSODescriptors) == 1 && len(md.SPSSODescriptors[0].AssertionConsumerServices) == 2 {
		e := md.SPSSODescriptors[0].AssertionConsumerServices
		if r.AssertionConsumerServiceIndex != "" && strconv.Itoa(e[1].Index) == r.AssertionConsumerServiceIndex && strconv.Itoa(e[0].Index) != r.AssertionConsumerServiceIndex &&
			r.AssertionConsumerServiceURL != "" && e[0].Location == r.AssertionConsumerServiceURL {
			verifReach("index-and-url-name-different-endpoints")
		}
	}
	verifAssert(verifNotAfter(now, r.IssueInstant.Add(MaxIssueDelay)), "C05/fresh")
	verifAssert(r.Version == "2.0", "C05/version")
	verifAssert(verifOr(r.Destination == "", r.Destination == idp.SSOURL.String()), "C05/destination")
	verifAssert(r.Issuer != nil, "C05/issuer-present")
	verifAssert(outcome == 0, "C05/issuer-known-to-registry")
	verifAssert(len(asked) == 1, "C05/registry-asked-once")
	if r.Issuer != nil && len(asked) == 1 {
		verifAssert(asked[0] == r.Issuer.Value, "C05/registry-asked-for-issuer")
	}
	verifAssert(req.ServiceProviderMetadata == md, "C05/metadata-is-registered-metadata")
	verifAssert(req.ACSEndpoint != nil, "C05/endpoint-selected")
	verifAssert(req.SPSSODescriptor != nil, "C05/descriptor-selected")
	if req.ACSEndpoint == nil {
		return
	}
	// the documented priority over the registered endpoints, in document order
	anyIdx, anyURL, anyDef, anyBrowser := false, false, false, false
	selected := false
	both := verifAnd(r.AssertionConsumerServiceIndex == "", r.AssertionConsumerServiceURL == "")
	// pass 1: existence flags
	for i := range md.SPSSODescriptors {
		for j := range md.SPSSODescriptors[i].AssertionConsumerServices {
			e := &md.SPSSODescriptors[i].AssertionConsumerServices[j]
			anyIdx = verifOr(anyIdx, verifAnd(r.AssertionConsumerServiceIndex != "", strconv.Itoa(e.Index) == r.AssertionConsumerServiceIndex))
			anyURL = verifOr(anyURL, verifAnd(r.AssertionConsumerServiceURL != "", e.Location == r.AssertionConsumerServiceURL))
			isDef := false
			if e.IsDefault != nil {
				isDef = *e.IsDefault
			}
			anyDef = verifOr(anyDef, verifAnd(isDef, verifBrowserBinding(e.Binding)))
			anyBrowser = verifOr(anyBrowser, verifBrowserBinding(e.Binding))
		}
	}
	// pass 2: the first endpoint of the winning class must be the one selected
	seenIdx, seenURL, seenDef, seenBrowser := false, false, false, false
	for i := range md.SPSSODescriptors {
		for j := range md.SPSSODescriptors[i].AssertionConsumerServices {
			e := &md.SPSSODescriptors[i].AssertionConsumerServices[j]
			mIdx := verifAnd(r.AssertionConsumerServiceIndex != "", strconv.Itoa(e.Index) == r.AssertionConsumerServiceIndex)
			mURL := verifAnd(r.AssertionConsumerServiceURL != "", e.Location == r.AssertionConsumerServiceURL)
			isDef := false
			if e.IsDefault != nil {
				isDef = *e.IsDefault
			}
			mDef := verifAnd(isDef, verifBrowserBinding(e.Binding))
			mBrowser := verifBrowserBinding(e.Binding)
			win := verifAnd(mIdx, !seenIdx)
			win = verifOr(win, verifAnd(!anyIdx, verifAnd(mURL, !seenURL)))
			win = verifOr(win, verifAnd(both, verifAnd(mDef, !seenDef)))
			win = verifOr(win, verifAnd(both, verifAnd(!anyDef, verifAnd(mBrowser, !seenBrowser))))
			same := verifAnd(*req.ACSEndpoint == *e, true)
			selected = verifOr(selected, verifAnd(win, same))
			seenIdx = verifOr(seenIdx, mIdx)
			seenURL = verifOr(seenURL, mURL)
			seenDef = verifOr(seenDef, mDef)
			seenBrowser = verifOr(seenBrowser, mBrowser)
		}
	}
	verifAssert(selected, "C05/endpoint-is-the-registered-endpoint-the-priority-selects")
	verifAssert(verifOr(verifOr(anyIdx, anyURL), verifAnd(both, anyBrowser)), "C05/endpoint-only-from-registry")
}

// Harness_C09_idpvalidate: Validate never panics.
func Harness_C09_idpvalidate() {
	idp := &IdentityProvider{Key: verifTestSigner(0, 0), Certificate: verifTestCert(0, 0)}
	overHTTP := verifChoose("http.request", 2) == 1
	if !overHTTP {
		idp.SSOURL = verifNondetURL("idp.SSOURL")
	}
	idp.MetadataURL = verifNondetURL("idp.MetadataURL")
	md := &EntityDescriptor{}
	verifHavoc("md", md)
	var asked []string
	outcome := -1
	idp.ServiceProviderProvider = verifSPProvider{&asked, &outcome, md}
	verifTolerances()
	now := verifNondetTime("now")
	TimeNow = func() time.Time { return now }
	ar := &AuthnRequest{}
	verifHavoc("ar", ar)
	req := &IdpAuthnRequest{IDP: idp, Now: now, RequestBuffer: verifMarshalXML(ar)}
	if overHTTP {
		// the request as received over HTTP: the Host header is whatever the sender wrote
		// (the IdP's own name or another one), the SSO URL a concrete one
		u, perr := url.Parse("https://idp.example.com/saml/sso")
		if perr != nil {
			return
		}
		idp.SSOURL = *u
		hr := verifRequest("GET", "https://idp.example.com/saml/sso", nil, nil)
		hr.Host = []string{"idp.example.com", "idp.other-tenant.example", "sp.example.net:8443"}[verifChoose("http.host", 3)]
		req.HTTPRequest = hr
		verifReach("received-over-http")
	}
	_ = req.Validate()
	verifReach("returned")
}
