//go:build verif

package saml

func verifMaterialise(d *verifDoc) []byte
