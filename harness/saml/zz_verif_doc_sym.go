//go:build verif

package saml

func verifMaterialise(d *verifDoc) []byte

func verifMaterialiseLogout(lr *LogoutResponse, sign int, rootless bool) []byte
func verifDeflate(b []byte) []byte
