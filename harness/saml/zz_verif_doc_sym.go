//go:build verif

package saml

import (
	"io"

	"github.com/beevik/etree"
)

// verifInflateSource is a reader over a deflate stream that inflates to size bytes.
func verifInflateSource(size int) io.Reader

// verifReadMany reads from r with a buffer of bufLen bytes until the first error - symbolically for `reads`
// calls, natively until the stream ends - and returns the number of bytes delivered in total.
func verifReadMany(r io.Reader, bufLen int, reads int) int

func verifMaterialise(d *verifDoc) []byte

// verifMaterialiseArtifact: the bytes of <soap:Envelope><soap:Body><samlp:ArtifactResponse>...<samlp:Response>.
func verifMaterialiseArtifact(d *verifArtifactDoc) []byte

func verifMaterialiseLogout(lr *LogoutResponse, sign int, rootless bool) []byte
func verifDeflate(b []byte) []byte

// verifSignedBy reports whether el carries an enveloped signature over itself that verifies under test certificate (kind,id).
func verifSignedBy(el *etree.Element, kind int, id int) bool

// verifParseAssertionBytes parses serialised XML and returns its root element (nil if it does not parse).
func verifParseAssertionBytes(b []byte) *etree.Element
