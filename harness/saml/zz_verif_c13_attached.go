//go:build verif

package saml

import (
	"bytes"
	"compress/flate"
	"encoding/base64"
	"io"
	"time"

	"github.com/beevik/etree"
)

// Harness_C13_attached: with request signing configured, every POST-binding request,
// logout message and artifact resolution either carries an enveloped signature over
// its own element made by the SP key, or is refused with an error - never unsigned.
func Harness_C13_attached() {
	sp := verifSP("sp")
	kind := verifChoose("keykind", 2)
	sp.Key = verifTestSigner(kind, 0)
	sp.Certificate = verifTestCert(kind, 0)
	methods := []string{
		"", // signing off
		"http://www.w3.org/2000/09/xmldsig#rsa-sha1",
		"http://www.w3.org/2001/04/xmldsig-more#rsa-sha256",
		"http://www.w3.org/2001/04/xmldsig-more#ecdsa-sha256",
		"urn:not-a-signature-method",
	}
	sp.SignatureMethod = methods[verifChoose("method", len(methods))]
	verifAuthnOptions(sp)
	var drawn []byte
	calls := 0
	RandReader = verifRandReader{&drawn, &calls}
	now := verifNondetTimeMs("now")
	TimeNow = func() time.Time { return now }
	idpURL := "https://idp.example.com/endpoint"

	var el *etree.Element
	var sig *etree.Element
	var err error
	name := ""
	switch verifChoose("message", 4) {
	case 0:
		name = "authn-request-post"
		var m *AuthnRequest
		m, err = sp.MakeAuthenticationRequest(idpURL, HTTPPostBinding, HTTPPostBinding)
		if err == nil {
			el, sig = m.Element(), m.Signature
		}
	case 1:
		name = "logout-request"
		var m *LogoutRequest
		m, err = sp.MakeLogoutRequest(idpURL, "name-id")
		if err == nil {
			el, sig = m.Element(), m.Signature
		}
	case 2:
		name = "logout-response"
		var m *LogoutResponse
		m, err = sp.MakeLogoutResponse(idpURL, "request-id")
		if err == nil {
			el, sig = m.Element(), m.Signature
		}
	case 3:
		name = "artifact-resolve"
		var m *ArtifactResolve
		m, err = sp.MakeArtifactResolveRequest("artifact-id")
		if err == nil {
			el, sig = m.Element(), m.Signature
		}
	}
	methodMatchesKey := (kind == 0 && (sp.SignatureMethod == methods[1] || sp.SignatureMethod == methods[2])) ||
		(kind == 1 && sp.SignatureMethod == methods[3])
	if err != nil {
		verifReach("refused")
		verifAssert(sp.SignatureMethod != "", "C13/attached/"+name+"/unsigned-messages-are-never-refused")
		return
	}
	verifReach("made")
	if sp.SignatureMethod == "" {
		verifAssert(sig == nil, "C13/attached/"+name+"/no-signature-when-signing-is-off")
		return
	}
	verifReach("made-with-signing-configured")
	verifAssert(methodMatchesKey, "C13/attached/"+name+"/mismatching-or-unknown-method-is-refused")
	verifAssert(sig != nil, "C13/attached/"+name+"/signature-attached")
	verifAssert(verifSignedBy(el, kind, 0), "C13/attached/"+name+"/element-carries-sp-signature")
}

// Harness_C13_metadata: the published metadata advertises the signing certificate and
// AuthnRequestsSigned exactly when a signature method is configured.
func Harness_C13_metadata() {
	sp := verifSP("sp")
	kind := verifChoose("key.kind", 2) // RSA or ECDSA
	sp.Key = verifTestSigner(kind, 0)
	sp.Certificate = verifTestCert(kind, 0)
	sp.SignatureMethod = verifNondetString("sp.SignatureMethod")
	now := verifNondetTimeMs("now")
	TimeNow = func() time.Time { return now }
	md := sp.Metadata()
	verifReach("metadata")
	verifAssert(len(md.SPSSODescriptors) == 1, "C13/metadata/one-descriptor")
	if len(md.SPSSODescriptors) != 1 {
		return
	}
	d := &md.SPSSODescriptors[0]
	signing := sp.SignatureMethod != ""
	verifAssert(d.AuthnRequestsSigned != nil, "C13/metadata/authn-requests-signed-present")
	if d.AuthnRequestsSigned != nil {
		verifAssert(*d.AuthnRequestsSigned == signing, "C13/metadata/authn-requests-signed-iff-method-configured")
	}
	found := false
	for i := range d.KeyDescriptors {
		if d.KeyDescriptors[i].Use == "signing" {
			found = true
			certs := d.KeyDescriptors[i].KeyInfo.X509Data.X509Certificates
			verifAssert(len(certs) == 1, "C13/metadata/signing-descriptor-has-certificate")
			if len(certs) == 1 {
				verifAssert(certs[0].Data == verifTestCertB64(kind, 0), "C13/metadata/signing-certificate-is-sp-certificate")
			}
		}
	}
	verifAssert(found == signing, "C13/metadata/signing-descriptor-iff-method-configured")
}

// Harness_C13_wire: the convenience entry points that return the wire form (POST forms and the logout
// redirect URLs), with signing configured and an IdP whose logout endpoints advertise a ResponseLocation
// different from their Location: the message recovered from the wire form carries an enveloped
// signature of the SP key that verifies over the element as emitted.
func Harness_C13_wire() {
	sp := verifSP("sp")
	kind := verifChoose("keykind", 2)
	sp.Key = verifTestSigner(kind, 0)
	sp.Certificate = verifTestCert(kind, 0)
	sp.SignatureMethod = []string{"http://www.w3.org/2001/04/xmldsig-more#rsa-sha256", "http://www.w3.org/2001/04/xmldsig-more#ecdsa-sha256"}[kind]
	verifAuthnOptions(sp)
	d := &sp.IDPMetadata.IDPSSODescriptors[0]
	d.SingleSignOnServices = []Endpoint{{Binding: HTTPPostBinding, Location: "https://idp.example.com/sso"}}
	d.SingleLogoutServices = []Endpoint{
		{Binding: HTTPPostBinding, Location: "https://idp.example.com/slo", ResponseLocation: "https://idp.example.com/slo-done"},
		{Binding: HTTPRedirectBinding, Location: "https://idp.example.com/slo-r", ResponseLocation: "https://idp.example.com/slo-r-done"},
	}
	var drawn []byte
	calls := 0
	RandReader = verifRandReader{&drawn, &calls}
	now := verifNondetTimeMs("now")
	TimeNow = func() time.Time { return now }
	relayState := verifNondetString("relayState")

	var raw []byte
	name := ""
	switch verifChoose("message", 4) {
	case 0:
		name = "authn-request-post"
		body, err := sp.MakePostAuthenticationRequest(relayState)
		if err != nil {
			return
		}
		raw = verifFormMessage(body, "SAMLRequest")
	case 1:
		name = "logout-request-post"
		body, err := sp.MakePostLogoutRequest("name-id", relayState)
		if err != nil {
			return
		}
		raw = verifFormMessage(body, "SAMLRequest")
	case 2:
		name = "logout-response-post"
		body, err := sp.MakePostLogoutResponse("request-id", relayState)
		if err != nil {
			return
		}
		raw = verifFormMessage(body, "SAMLResponse")
	case 3:
		name = "logout-response-redirect"
		u, err := sp.MakeRedirectLogoutResponse("request-id", relayState)
		if err != nil {
			return
		}
		q := u.Query()
		if len(q["SAMLResponse"]) != 1 {
			verifAssert(false, "C13/wire/"+name+"/message-parameter-present")
			return
		}
		deflated, derr := base64.StdEncoding.DecodeString(q["SAMLResponse"][0])
		if derr != nil {
			verifAssert(false, "C13/wire/"+name+"/message-parameter-is-base64")
			return
		}
		inflated, ierr := io.ReadAll(flate.NewReader(bytes.NewReader(deflated)))
		if ierr != nil {
			verifAssert(false, "C13/wire/"+name+"/message-parameter-inflates")
			return
		}
		raw = inflated
	}
	verifReach("emitted")
	verifAssert(raw != nil, "C13/wire/"+name+"/message-recoverable-from-the-wire-form")
	if raw == nil {
		return
	}
	el := verifParseAssertionBytes(raw)
	verifAssert(el != nil, "C13/wire/"+name+"/message-is-xml")
	if el == nil {
		return
	}
	verifReach("recovered")
	verifAssert(verifSignedBy(el, kind, 0), "C13/wire/"+name+"/emitted-element-carries-a-verifying-sp-signature")
}

// verifFormMessage: the bytes of the base64 field `name` of an auto-submit form (nil if absent or not base64).
func verifFormMessage(body []byte, name string) []byte {
	v, ok := verifFormField(body, name)
	if !ok {
		return nil
	}
	raw, err := base64.StdEncoding.DecodeString(v)
	if err != nil {
		return nil
	}
	return raw
}


// verifAuthnOptions: the optional AuthnRequest contents an SP may configure (they are part of the signed element).
func verifAuthnOptions(sp *ServiceProvider) {
	switch verifChoose("authn.options", 3) {
	case 1:
		yes := true
		sp.ForceAuthn = &yes
	case 2:
		sp.RequestedAuthnContext = &RequestedAuthnContext{Comparison: "exact", AuthnContextClassRef: "urn:oasis:names:tc:SAML:2.0:ac:classes:PasswordProtectedTransport"}
	}
}
