//go:build verif

package saml

import (
	"encoding/base64"
	"net/url"
	"strings"
	"time"
)

// verifShortString: an arbitrary string of 0..max bytes, each byte in 0x01..0x7F
// (escaping works byte by byte: longer and non-ASCII strings add no new case to the code under test).
func verifShortString(tag string, max int) string {
	n := verifChoose(tag+".len", max+1)
	b := verifNondetBytes(tag, n)
	for i := range b {
		verifAssume(b[i] >= 1)
		verifAssume(b[i] <= 0x7f)
	}
	return string(b)
}

// redirectOracle: the emitted query carries exactly one message parameter, the relay state
// byte for byte as exactly one parameter (none when empty) and the endpoint's own parameters.
func redirectOracle(label string, u *url.URL, msgParam string, relayState string, hasEndpointQuery bool) url.Values {
	q, perr := url.ParseQuery(u.RawQuery)
	verifAssert(perr == nil, label+"/query-parses")
	verifAssert(!strings.Contains(u.RawQuery, "#"), label+"/no-fragment-delimiter-in-query")
	verifAssert(len(q[msgParam]) == 1, label+"/single-message-parameter")
	if relayState != "" {
		verifAssert(len(q["RelayState"]) == 1, label+"/single-relay-state-parameter")
		if len(q["RelayState"]) == 1 {
			verifAssert(q["RelayState"][0] == relayState, label+"/relay-state-round-trips")
		}
	} else {
		verifAssert(len(q["RelayState"]) == 0, label+"/no-relay-state-parameter-when-empty")
	}
	if hasEndpointQuery {
		verifAssert(len(q["tenant"]) == 1, label+"/endpoint-parameter-kept")
		if len(q["tenant"]) == 1 {
			verifAssert(q["tenant"][0] == "a b", label+"/endpoint-parameter-unchanged")
		}
	}
	return q
}

func verifEndpoint(tag string) (string, bool) {
	if verifChoose(tag+".query", 2) == 1 {
		return "https://idp.example.com/sso?tenant=a+b", true
	}
	return "https://idp.example.com/sso", false
}

// Harness_C12_redirect: AuthnRequest.Redirect, signing off/on.
func Harness_C12_redirect() {
	sp := verifSP("sp")
	sp.Key = verifTestSigner(0, 0)
	sp.Certificate = verifTestCert(0, 0)
	if verifChoose("signing", 2) == 1 {
		sp.SignatureMethod = "http://www.w3.org/2001/04/xmldsig-more#rsa-sha256"
	}
	var drawn []byte
	calls := 0
	RandReader = verifRandReader{&drawn, &calls}
	now := verifNondetTimeMs("now")
	TimeNow = func() time.Time { return now }
	endpoint, hasQ := verifEndpoint("endpoint")
	relayState := verifShortString("relayState", verifParam("relay.maxlen", 2))
	req, err := sp.MakeAuthenticationRequest(endpoint, HTTPRedirectBinding, HTTPPostBinding)
	if err != nil {
		return
	}
	u, err := req.Redirect(relayState, sp)
	if err != nil {
		verifReach("refused")
		return
	}
	verifReach("redirect")
	q := redirectOracle("C12/redirect", u, "SAMLRequest", relayState, hasQ)
	if sp.SignatureMethod != "" {
		verifReach("signed-redirect")
		verifAssert(len(q["SigAlg"]) == 1, "C13/redirect/sigalg-parameter")
		verifAssert(len(q["Signature"]) == 1, "C13/redirect/signature-parameter")
		if len(q["SigAlg"]) == 1 && len(q["Signature"]) == 1 && len(q["SAMLRequest"]) == 1 {
			verifAssert(q["SigAlg"][0] == sp.SignatureMethod, "C13/redirect/sigalg-is-configured-method")
			// the octets exactly as they stand in the emitted URL (saml-bindings 3.4.4.1), not a re-encoding of the parsed values
			octets := verifSignedQueryOctets(u.RawQuery, "SAMLRequest")
			verifAssert(octets != "", "C13/redirect/signed-octets-present")
			sig, derr := base64.StdEncoding.DecodeString(q["Signature"][0])
			verifAssert(derr == nil, "C13/redirect/signature-is-base64")
			if derr == nil {
				verifAssert(verifVerifyString(octets, sig, sp.SignatureMethod, 0, 0), "C13/redirect/signature-over-exactly-the-octets")
			}
		}
	}
}

// Harness_C12_logout_redirect: LogoutRequest.Redirect and LogoutResponse.Redirect.
func Harness_C12_logout_redirect() {
	sp := verifSP("sp")
	var drawn []byte
	calls := 0
	RandReader = verifRandReader{&drawn, &calls}
	now := verifNondetTimeMs("now")
	TimeNow = func() time.Time { return now }
	endpoint, hasQ := verifEndpoint("endpoint")
	relayState := verifShortString("relayState", verifParam("relay.maxlen", 2))
	if verifChoose("kind", 2) == 0 {
		req, err := sp.MakeLogoutRequest(endpoint, verifShortString("nameID", 1))
		if err != nil {
			return
		}
		verifReach("logout-request")
		redirectOracle("C12/logout-request-redirect", req.Redirect(relayState), "SAMLRequest", relayState, hasQ)
	} else {
		resp, err := sp.MakeLogoutResponse(endpoint, verifNondetString("logoutRequestID"))
		if err != nil {
			return
		}
		verifReach("logout-response")
		redirectOracle("C12/logout-response-redirect", resp.Redirect(relayState), "SAMLResponse", relayState, hasQ)
	}
}
