//go:build verif

package saml

import (
	"encoding/base64"

	"github.com/crewjam/saml/xmlenc"
)

// Harness_C08_nodowngrade: when the registered SP metadata advertises an
// encryption key the assertion leaves only inside an EncryptedAssertion that the
// SP's private key (and no other) opens to the signed assertion, with a content
// key and IV drawn from the random source in this call; a certificate that
// cannot be used is a hard error, never a silent downgrade to plaintext.
func Harness_C08_nodowngrade() {
	layout := 1 // the run registered under C06 fixes the layout (a real encryption certificate): the layouts are C08's subject
	if verifParam("keylayout.fixed", 0) == 0 {
		layout = verifChoose("keyLayout", 6)
	}
	r := idpScenario(layout, false, false)
	if err := (DefaultAssertionMaker{}).MakeAssertion(r.req, r.session); err != nil {
		return
	}
	before := len(r.drawn)
	err := r.req.MakeAssertionEl()
	advertised := layout == 1 || layout == 2 || layout == 4 || layout == 5
	if err != nil {
		verifReach("refused")
		return
	}
	verifReach("made")
	el := r.req.AssertionEl
	verifAssert(el != nil, "C08/nodowngrade/element")
	if el == nil {
		return
	}
	if !advertised {
		verifReach("plaintext")
		verifAssert(el.Tag == "Assertion", "C08/nodowngrade/plaintext-only-without-key")
		return
	}
	verifReach("encrypted")
	verifAssert(layout != 2, "C08/nodowngrade/unusable-certificate-is-an-error")
	verifAssert(el.Tag == "EncryptedAssertion", "C08/nodowngrade/advertised-key-means-encrypted")
	verifAssert(verifChildByTag(el, "Assertion") == nil, "C08/nodowngrade/no-plaintext-assertion-inside")
	if el.Tag != "EncryptedAssertion" {
		return
	}
	encData := verifChildByTag(el, "EncryptedData")
	verifAssert(encData != nil, "C08/nodowngrade/encrypted-data-present")
	if encData == nil {
		return
	}
	// recoverable with the SP's private key ...
	plain, derr := xmlenc.Decrypt(verifTestSigner(0, 1), encData)
	verifAssert(derr == nil, "C08/recoverable-with-sp-key")
	if derr == nil {
		doc := verifParseAssertionBytes(plain)
		verifAssert(doc != nil, "C08/plaintext-is-the-signed-assertion")
		if doc != nil {
			verifAssert(doc.SelectAttrValue("ID", "") == r.req.Assertion.ID, "C08/plaintext-is-the-made-assertion")
			verifAssert(verifSignedBy(doc, 0, 0), "C06+C08/decrypted-assertion-is-signed-by-idp")
		}
	}
	// ... and with no other key
	_, oerr := xmlenc.Decrypt(verifTestSigner(0, 0), encData)
	verifAssert(oerr != nil, "C08/not-recoverable-with-another-key")
	// fresh content key and IV, drawn from the random source in this call
	keyEl := encData.FindElement("./KeyInfo/EncryptedKey")
	verifAssert(keyEl != nil, "C08/encrypted-key-present")
	if keyEl != nil {
		k, kerr := xmlenc.Decrypt(verifTestSigner(0, 1), keyEl)
		verifAssert(kerr == nil, "C08/content-key-recoverable")
		if kerr == nil {
			verifAssert(len(k) == 16, "C08/fresh/content-key-is-128-bits")
			fresh := r.drawn[before:]
			verifAssert(verifContains(fresh, k), "C08/fresh/content-key-drawn-in-this-call")
		}
	}
	cv := encData.FindElement("./CipherData/CipherValue")
	verifAssert(cv != nil, "C08/cipher-value-present")
	if cv != nil {
		raw, berr := base64.StdEncoding.DecodeString(cv.Text())
		verifAssert(berr == nil && len(raw) >= 32, "C08/cipher-value-has-iv-and-blocks")
		if berr == nil && len(raw) >= 32 {
			verifAssert(verifContains(r.drawn[before:], raw[:16]), "C08/fresh/iv-drawn-in-this-call")
		}
	}
}

// verifContains: needle occurs as a contiguous run in hay (both short).
func verifContains(hay, needle []byte) bool {
	if len(needle) == 0 || len(needle) > len(hay) {
		return false
	}
	r := false
	for i := 0; i+len(needle) <= len(hay); i++ {
		m := true
		for j := range needle {
			m = verifAnd(m, hay[i+j] == needle[j])
		}
		r = verifOr(r, m)
	}
	return r
}
