//go:build verif

package saml

import (
	"encoding/xml"
	"net/url"
)

func verifKnownBinding(b string) bool {
	return b == HTTPPostBinding || b == HTTPRedirectBinding || b == HTTPArtifactBinding || b == SOAPBinding || b == SOAPBindingV1
}

// verifLocation returns a location text from the classes on which the abstract
// url.Parse model is exact: a concrete scheme prefix (http, https, script-bearing and other schemes, one in mixed case)
// followed by colon-free text, or colon-free text alone.
func verifLocation(tag string) string {
	rest := verifNondetStringNoColon(tag + ".rest")
	prefixes := []string{"http://", "https://", "javascript:", "data:", "JavaScript:", "vbscript:", "view-source:", "ftp://", "file:///", "intent://", ""}
	return prefixes[verifChoose(tag+".class", len(prefixes))] + rest
}

func verifHTTPScheme(s string) bool {
	u, err := url.Parse(s)
	if err != nil {
		return false
	}
	return verifOr(u.Scheme == "http", u.Scheme == "https")
}

// Harness_C14_endpoint: after a successful unmarshal of a plain Endpoint, Location
// and ResponseLocation are http(s) URLs for the standard bindings and blank otherwise.
func Harness_C14_endpoint() {
	in := Endpoint{
		Binding:          verifNondetString("Binding"),
		Location:         verifLocation("Location"),
		ResponseLocation: verifLocation("ResponseLocation"),
	}
	var out Endpoint
	err := xml.Unmarshal(verifMarshalXML(&in), &out)
	if err != nil {
		verifReach("rejected")
		return
	}
	verifReach("accepted")
	if verifKnownBinding(out.Binding) {
		verifReach("accepted-known-binding")
		verifAssert(verifHTTPScheme(out.Location), "C14/endpoint/location-is-http")
		if out.ResponseLocation != "" {
			verifAssert(verifHTTPScheme(out.ResponseLocation), "C14/endpoint/response-location-is-http")
		}
	} else {
		verifAssert(out.Location == "", "C14/endpoint/unknown-binding-location-blanked")
		verifAssert(out.ResponseLocation == "", "C14/endpoint/unknown-binding-response-location-blanked")
	}
}

// Harness_C14_indexed: the same for IndexedEndpoint (ResponseLocation is a nil-able pointer).
func Harness_C14_indexed() {
	in := IndexedEndpoint{
		Binding:  verifNondetString("Binding"),
		Location: verifLocation("Location"),
		Index:    verifNondetInt("Index"),
	}
	if verifNondetBool("hasResponseLocation") {
		rl := verifLocation("ResponseLocation")
		in.ResponseLocation = &rl
	}
	var out IndexedEndpoint
	err := xml.Unmarshal(verifMarshalXML(&in), &out)
	if err != nil {
		verifReach("rejected")
		return
	}
	verifReach("accepted")
	if verifKnownBinding(out.Binding) {
		verifAssert(verifHTTPScheme(out.Location), "C14/indexed/location-is-http")
		if out.ResponseLocation != nil {
			verifAssert(verifHTTPScheme(*out.ResponseLocation), "C14/indexed/response-location-is-http")
		}
	} else {
		verifAssert(out.Location == "", "C14/indexed/unknown-binding-location-blanked")
		verifAssert(out.ResponseLocation == nil, "C14/indexed/unknown-binding-response-location-dropped")
	}
}
