//go:build verif

package saml

import "time"

// verifSP builds a ServiceProvider whose checked configuration is symbolic.
func verifSP(tag string) *ServiceProvider {
	sp := &ServiceProvider{}
	sp.EntityID = verifNondetString(tag + ".EntityID")
	sp.MetadataURL = verifNondetURL(tag + ".MetadataURL")
	sp.AcsURL = verifNondetURL(tag + ".AcsURL")
	sp.SloURL = verifNondetURL(tag + ".SloURL")
	sp.IDPMetadata = verifTrustedIDPMetadata(verifNondetString(tag + ".idpEntityID"))
	sp.AllowIDPInitiated = verifNondetBool(tag + ".AllowIDPInitiated")
	return sp
}

// verifTolerances makes the two public tolerances arbitrary non-negative durations.
func verifTolerances() {
	MaxIssueDelay = verifNondetDuration("MaxIssueDelay")
	MaxClockSkew = verifNondetDuration("MaxClockSkew")
	verifAssume(MaxIssueDelay >= 0)
	verifAssume(MaxIssueDelay < 1<<62)
	verifAssume(MaxClockSkew >= 0)
	verifAssume(MaxClockSkew < 1<<62)
}

// verifIDs returns 0..max outstanding request IDs (arbitrary strings, possibly empty or equal).
func verifIDs(tag string, max int) []string {
	n := verifChoose(tag+".n", max+1)
	ids := make([]string, 0, n)
	for i := 0; i < n; i++ {
		ids = append(ids, verifNondetString(tag+"."+string(rune('0'+i))))
	}
	return ids
}

func verifInIDs(s string, ids []string) bool {
	r := false
	for _, id := range ids {
		r = verifOr(r, s == id)
	}
	return r
}

// notAfter(a, b): a <= b for instants.
func verifNotAfter(a, b time.Time) bool { return !a.After(b) }

// verifRandReader is the random source handed to the library: it draws
// arbitrary bytes (solver variables) and remembers what it handed out.
type verifRandReader struct {
	drawn *[]byte
	calls *int
}

var verifShortAt int

type verifRandErr struct{}

func (verifRandErr) Error() string { return "verif: random source failed" }

func (r verifRandReader) Read(p []byte) (int, error) {
	*r.calls++
	if verifParam("rand.mayfail", 1) == 1 && verifNondetBool("rand.fail") {
		return 0, verifRandErr{}
	}
	// an io.Reader may return fewer bytes than asked for without an error (one call, chosen among the first
	// rand.short.maxcall calls, to bound the paths)
	n := len(p)
	if verifParam("rand.short", 0) == 1 && *r.calls == 1 {
		verifShortAt = 1 + verifChoose("rand.short.at", verifParam("rand.short.maxcall", 1))
	}
	if verifParam("rand.short", 0) == 1 && *r.calls == verifShortAt && len(p) > 1 {
		switch verifChoose("rand.short", 3) {
		case 1:
			n = 1
		case 2:
			n = len(p) / 2
		}
	}
	for i := 0; i < n; i++ {
		b := verifNondetByte("rand.byte")
		p[i] = b
		*r.drawn = append(*r.drawn, b)
	}
	return n, nil
}
