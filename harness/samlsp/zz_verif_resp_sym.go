//go:build verif

package samlsp

import (
	"time"

	"github.com/crewjam/saml"
)

// verifSignedResponse returns the base64 SAMLResponse form value of a valid response, signed by the
// trusted IdP key, addressed to sp, issued at now, answering the request ID inResponseTo, for user nameID.
func verifSignedResponse(sp *saml.ServiceProvider, inResponseTo string, nameID string, now time.Time) string
