//go:build verif

package samlsp

import (
	"context"
	"net/url"
	"strconv"

	"github.com/crewjam/saml"
)

// Harness_C09_metadata: ParseMetadata on bytes that are not the library's own (the validator and
// the decoder may each fail, the decoder may report the wrong root element, or either document
// type may decode to an arbitrary value) and FetchMetadata against a resolver whose reply the
// harness fixes: a descriptor or an error, never a panic, and never both.
func Harness_C09_metadata() {
	var data []byte
	switch verifChoose("document", 3) {
	case 0:
		data = verifNondetBytes("metadata", 3)
	case 1:
		data = verifMarshalXML(&saml.EntityDescriptor{EntityID: verifNondetString("entityID")})
	case 2:
		// a federation document: 0..2 entities, each with or without an IdP role
		es := &saml.EntitiesDescriptor{}
		n := verifChoose("entities", 3)
		for i := 0; i < n; i++ {
			e := saml.EntityDescriptor{EntityID: "https://idp" + strconv.Itoa(i) + ".example.com/metadata"}
			if verifChoose("entity"+strconv.Itoa(i)+".idp", 2) == 1 {
				e.IDPSSODescriptors = []saml.IDPSSODescriptor{{}}
			}
			es.EntityDescriptors = append(es.EntityDescriptors, e)
		}
		data = verifMarshalXML(es)
	}
	if verifChoose("via", 2) == 0 {
		md, err := ParseMetadata(data)
		verifReach("parsed")
		verifAssert((md == nil) != (err == nil), "C09/metadata/descriptor-or-error")
		if md != nil {
			verifReach("descriptor")
		}
		return
	}
	fail := verifNondetBool("http.fail")
	status := verifNondetInt("http.status")
	client := verifHTTPClient(fail, status, data)
	u, perr := url.Parse("https://idp.example.com/metadata")
	verifAssume(perr == nil)
	md, err := FetchMetadata(context.Background(), client, *u)
	verifReach("fetched")
	verifAssert((md == nil) != (err == nil), "C09/metadata/fetch-descriptor-or-error")
	if md != nil {
		verifAssert(!fail && status < 400, "C09/metadata/descriptor-only-from-a-successful-reply")
	}
}
