//go:build verif

package samlsp

import (
	"time"

	"github.com/golang-jwt/jwt/v4"
)

// verifToken builds the token under test around arbitrary claims:
//
//	0 garbage text                      1 this codec's key and algorithm (authentic iff the claims are right)
//	2 another key, same algorithm       3 alg "none"
//	4 HS256 keyed with public bytes     5 same key, another algorithm of the family (RS384)
//	6 tracking-token claims under the same key and algorithm
func verifToken(kind int, claims JWTSessionClaims, tracked JWTTrackedRequestClaims) (string, bool) {
	var tok string
	var err error
	switch kind {
	case 0:
		return verifNondetString("token.garbage"), true
	case 1:
		tok, err = jwt.NewWithClaims(jwt.SigningMethodRS256, claims).SignedString(verifTestSigner(0, 0))
	case 2:
		tok, err = jwt.NewWithClaims(jwt.SigningMethodRS256, claims).SignedString(verifTestSigner(0, 1))
	case 3:
		tok, err = jwt.NewWithClaims(jwt.SigningMethodNone, claims).SignedString(jwt.UnsafeAllowNoneSignatureType)
	case 4:
		tok, err = jwt.NewWithClaims(jwt.SigningMethodHS256, claims).SignedString([]byte("the public key is public"))
	case 5:
		tok, err = jwt.NewWithClaims(jwt.SigningMethodRS384, claims).SignedString(verifTestSigner(0, 0))
	default:
		tok, err = jwt.NewWithClaims(jwt.SigningMethodRS256, tracked).SignedString(verifTestSigner(0, 0))
	}
	return tok, err == nil
}

// Harness_C16_decode: JWTSessionCodec.Decode yields a session only for a token signed with
// this SP's key and algorithm whose claims carry the session marker, the configured issuer
// and audience and a validity period containing now - and then exactly those claims.
func Harness_C16_decode() {
	now := verifNondetTime("now")
	jwt.TimeFunc = func() time.Time { return now }
	codec := JWTSessionCodec{
		SigningMethod: jwt.SigningMethodRS256,
		Audience:      verifNondetString("codec.Audience"),
		Issuer:        verifNondetString("codec.Issuer"),
		MaxAge:        time.Hour,
		Key:           verifTestSigner(0, 0),
	}
	// deployments configure both as their root URL; the library treats an empty expected value as "never matches"
	verifAssume(codec.Audience != "")
	verifAssume(codec.Issuer != "")
	var claims JWTSessionClaims
	verifHavoc("claims", &claims)
	claims.Attributes = nil
	var tracked JWTTrackedRequestClaims
	tracked.Issuer, tracked.Audience = codec.Issuer, jwt.ClaimStrings{codec.Audience}
	tracked.SAMLAuthnRequest = true
	kind := verifChoose("token.kind", 7)
	tok, ok := verifToken(kind, claims, tracked)
	if !ok {
		return
	}
	s, err := codec.Decode(tok)
	if err != nil {
		verifReach("no-session")
		verifAssert(s == nil, "C16/decode/error-has-no-session")
		// completeness: an authentic, well-formed, unexpired session token is accepted
		if kind == 1 {
			good := verifAnd(claims.SAMLSession, verifAnd(claims.Audience == codec.Audience, claims.Issuer == codec.Issuer))
			good = verifAnd(good, verifAnd(claims.ExpiresAt > now.Unix(), verifAnd(claims.NotBefore <= now.Unix(), claims.IssuedAt <= now.Unix())))
			verifAssert(!good, "C16/decode/authentic-unexpired-session-token-accepted")
		}
		return
	}
	verifReach("session")
	verifAssert(kind == 1, "C16/decode/only-this-key-and-algorithm")
	verifAssert(claims.SAMLSession, "C16/decode/session-marker-required")
	verifAssert(claims.Audience == codec.Audience, "C16/decode/audience")
	verifAssert(claims.Issuer == codec.Issuer, "C16/decode/issuer")
	verifAssert(verifOr(claims.ExpiresAt == 0, now.Unix() < claims.ExpiresAt), "C16/decode/not-expired")
	verifAssert(verifOr(claims.NotBefore == 0, now.Unix() >= claims.NotBefore), "C16/decode/not-before")
	got, isClaims := s.(JWTSessionClaims)
	verifAssert(isClaims, "C16/decode/session-type")
	if isClaims {
		verifAssert(got.Subject == claims.Subject, "C16/decode/subject-is-token-subject")
	}
}
