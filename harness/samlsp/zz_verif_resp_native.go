//go:build verif

package samlsp

import (
	"encoding/base64"
	"time"

	"github.com/beevik/etree"
	dsig "github.com/russellhaering/goxmldsig"

	"github.com/crewjam/saml"
)

func verifSignedResponse(sp *saml.ServiceProvider, inResponseTo string, nameID string, now time.Time) string {
	a := &saml.Assertion{
		ID:           "id-assertion",
		IssueInstant: now,
		Version:      "2.0",
		Issuer:       saml.Issuer{Value: sp.IDPMetadata.EntityID},
		Subject: &saml.Subject{
			NameID: &saml.NameID{Value: nameID},
			SubjectConfirmations: []saml.SubjectConfirmation{{
				Method: "urn:oasis:names:tc:SAML:2.0:cm:bearer",
				SubjectConfirmationData: &saml.SubjectConfirmationData{
					NotOnOrAfter: now.Add(time.Hour), Recipient: sp.AcsURL.String(), InResponseTo: inResponseTo,
				},
			}},
		},
		Conditions: &saml.Conditions{NotBefore: now.Add(-time.Hour), NotOnOrAfter: now.Add(time.Hour)},
	}
	r := &saml.Response{
		ID: "id-response", InResponseTo: inResponseTo, Version: "2.0", IssueInstant: now, Destination: sp.AcsURL.String(),
		Status: saml.Status{StatusCode: saml.StatusCode{Value: saml.StatusSuccess}},
	}
	ctx, err := dsig.NewSigningContext(verifTestSigner(0, 0), [][]byte{verifTestCert(0, 0).Raw})
	if err != nil {
		panic(err)
	}
	ctx.Canonicalizer = dsig.MakeC14N10ExclusiveCanonicalizerWithPrefixList("")
	if err := ctx.SetSignatureMethod(dsig.RSASHA256SignatureMethod); err != nil {
		panic(err)
	}
	build := func() *etree.Element {
		el := r.Element()
		el.AddChild(a.Element())
		return el
	}
	signed, err := ctx.SignEnveloped(build())
	if err != nil {
		panic(err)
	}
	r.Signature = signed.Child[len(signed.Child)-1].(*etree.Element)
	doc := etree.NewDocument()
	doc.SetRoot(build())
	b, err := doc.WriteToBytes()
	if err != nil {
		panic(err)
	}
	return base64.StdEncoding.EncodeToString(b)
}
