//go:build verif

package samlsp

import (
	"net/http"
	"time"

	"github.com/golang-jwt/jwt/v4"

	"github.com/crewjam/saml"
)

// Harness_C16_gate: RequireAccount runs the wrapped handler exactly for requests that present an
// authentic, unexpired session token of this SP under the session cookie name; every other request
// starts the login flow instead. The handler sees exactly the token's attributes.
func Harness_C16_gate() {
	m := verifMiddleware(false)
	now := verifNondetTime("now")
	verifAssume(now.After(time.Unix(100000, 0)))
	session := m.Session.(CookieSessionProvider)
	var drawn []byte
	calls := 0
	saml.RandReader = verifRandReader{&drawn, &calls}

	kind := verifChoose("cookie.kind", 6)
	attrValue := verifNondetString("attr.value")
	var cookies []*http.Cookie
	authentic := false
	switch kind {
	case 0: // no cookie at all
	case 1, 2: // authentic session token, fresh (1) or older than the session lifetime (2)
		age := time.Minute
		if kind == 2 {
			age = 2 * time.Hour
		}
		verifSetClock(now.Add(-age))
		a := &saml.Assertion{AttributeStatements: []saml.AttributeStatement{{Attributes: []saml.Attribute{{
			Name: "urn:group", FriendlyName: "group", Values: []saml.AttributeValue{{Value: attrValue}},
		}}}}}
		s, err := session.Codec.New(a)
		if err != nil {
			return
		}
		v, err := session.Codec.Encode(s)
		if err != nil {
			return
		}
		cookies = append(cookies, &http.Cookie{Name: "token", Value: v})
		authentic = kind == 1
	case 3: // a tracking token of the same SP under the session cookie name
		verifSetClock(now.Add(-time.Second))
		v, err := m.RequestTracker.(CookieRequestTracker).Codec.Encode(TrackedRequest{Index: "i", SAMLRequestID: "id", URI: "/"})
		if err != nil {
			return
		}
		cookies = append(cookies, &http.Cookie{Name: "token", Value: v})
	case 4: // garbage
		cookies = append(cookies, &http.Cookie{Name: "token", Value: verifNondetString("garbage")})
	case 5: // an authentic session token under another cookie name
		verifSetClock(now.Add(-time.Minute))
		s, _ := session.Codec.New(&saml.Assertion{})
		v, err := session.Codec.Encode(s)
		if err != nil {
			return
		}
		cookies = append(cookies, &http.Cookie{Name: "other", Value: v})
	}
	verifSetClock(now)
	_ = jwt.TimeFunc

	ran := false
	seen := ""
	inner := http.HandlerFunc(func(w http.ResponseWriter, r *http.Request) {
		ran = true
		seen = AttributeFromContext(r.Context(), "group")
		w.WriteHeader(http.StatusOK)
	})
	w := verifNewResponseWriter()
	r := verifRequest("GET", "http://sp.example.com/protected", nil, cookies)
	m.RequireAccount(inner).ServeHTTP(w, r)

	verifReach("served")
	if ran {
		verifReach("handler-ran")
		verifAssert(authentic, "C16/gate/handler-runs-only-with-authentic-unexpired-session")
		verifAssert(seen == attrValue, "C16/gate/handler-sees-the-token-attributes")
		return
	}
	verifReach("handler-not-run")
	verifAssert(!authentic, "C16/gate/authentic-session-reaches-the-handler")
	verifAssert(w.Status == http.StatusFound, "C16/gate/login-flow-started")
	verifAssert(w.Header().Get("Location") != "", "C16/gate/redirect-to-idp")
}

// Harness_C16_attribute: RequireAttribute admits a request exactly when some value of the named
// attribute of the session equals the required value.
func Harness_C16_attribute() {
	claims := JWTSessionClaims{Attributes: Attributes{}}
	n := verifChoose("values.n", 3)
	vals := []string{}
	for i := 0; i < n; i++ {
		vals = append(vals, verifNondetString("value."+string(rune('0'+i))))
	}
	name := verifNondetString("attr.name")
	claims.Attributes[name] = vals
	other := verifNondetString("other.name")
	verifAssume(other != name)
	claims.Attributes[other] = []string{verifNondetString("other.value")}
	wantName, wantValue := verifNondetString("want.name"), verifNondetString("want.value")

	ran := false
	inner := http.HandlerFunc(func(w http.ResponseWriter, r *http.Request) { ran = true })
	w := verifNewResponseWriter()
	r := verifRequest("GET", "http://sp.example.com/protected", nil, nil)
	if verifChoose("has.session", 2) == 1 {
		r = r.WithContext(ContextWithSession(r.Context(), claims))
	} else {
		claims.Attributes = nil
	}
	RequireAttribute(wantName, wantValue)(inner).ServeHTTP(w, r)
	verifReach("served")
	has := false
	if claims.Attributes != nil {
		if wantName == name {
			for _, v := range vals {
				has = verifOr(has, v == wantValue)
			}
		}
		if wantName == other {
			has = claims.Attributes[other][0] == wantValue
		}
	}
	if ran {
		verifReach("admitted")
	}
	verifAssert(ran == has, "C16/attribute/admitted-iff-attribute-has-value")
	if !ran {
		verifAssert(w.Status == http.StatusForbidden, "C16/attribute/refusal-is-forbidden")
	}
}
