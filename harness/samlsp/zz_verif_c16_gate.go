//go:build verif

package samlsp

import (
	"net/http"
	"strconv"
	"time"

	"github.com/golang-jwt/jwt/v4"

	"github.com/crewjam/saml"
)

// Harness_C16_gate: RequireAccount runs the wrapped handler exactly for requests that present an
// authentic, unexpired session token of this SP under the session cookie name; every other request
// starts the login flow instead. The handler sees exactly the token's attributes.
func Harness_C16_gate() {
	m := verifMiddleware(false)
	now := verifNondetTime("now")
	verifAssume(now.After(time.Unix(100000, 0)))
	session := m.Session.(CookieSessionProvider)
	var drawn []byte
	calls := 0
	saml.RandReader = verifRandReader{&drawn, &calls}

	kind := verifChoose("cookie.kind", 6)
	attrValue := verifNondetString("attr.value")
	var cookies []*http.Cookie
	authentic := false
	switch kind {
	case 0: // no cookie at all
	case 1, 2: // authentic session token, fresh (1) or older than the session lifetime (2)
		age := time.Minute
		if kind == 2 {
			age = 2 * time.Hour
		}
		verifSetClock(now.Add(-age))
		a := &saml.Assertion{AttributeStatements: []saml.AttributeStatement{{Attributes: []saml.Attribute{{
			Name: "urn:group", FriendlyName: "group", Values: []saml.AttributeValue{{Value: attrValue}},
		}}}}}
		s, err := session.Codec.New(a)
		if err != nil {
			return
		}
		v, err := session.Codec.Encode(s)
		if err != nil {
			return
		}
		cookies = append(cookies, &http.Cookie{Name: "token", Value: v})
		authentic = kind == 1
	case 3: // a tracking token of the same SP under the session cookie name
		verifSetClock(now.Add(-time.Second))
		v, err := m.RequestTracker.(CookieRequestTracker).Codec.Encode(TrackedRequest{Index: "i", SAMLRequestID: "id", URI: "/"})
		if err != nil {
			return
		}
		cookies = append(cookies, &http.Cookie{Name: "token", Value: v})
	case 4: // garbage
		cookies = append(cookies, &http.Cookie{Name: "token", Value: verifNondetString("garbage")})
	case 5: // an authentic session token under another cookie name
		verifSetClock(now.Add(-time.Minute))
		s, _ := session.Codec.New(&saml.Assertion{})
		v, err := session.Codec.Encode(s)
		if err != nil {
			return
		}
		cookies = append(cookies, &http.Cookie{Name: "other", Value: v})
	}
	verifSetClock(now)
	_ = jwt.TimeFunc

	ran := false
	seen := ""
	inner := http.HandlerFunc(func(w http.ResponseWriter, r *http.Request) {
		ran = true
		seen = AttributeFromContext(r.Context(), "group")
		w.WriteHeader(http.StatusOK)
	})
	w := verifNewResponseWriter()
	r := verifRequest("GET", "http://sp.example.com/protected", nil, cookies)
	m.RequireAccount(inner).ServeHTTP(w, r)

	verifReach("served")
	if ran {
		verifReach("handler-ran")
		verifAssert(authentic, "C16/gate/handler-runs-only-with-authentic-unexpired-session")
		verifAssert(seen == attrValue, "C16/gate/handler-sees-the-token-attributes")
		return
	}
	verifReach("handler-not-run")
	verifAssert(!authentic, "C16/gate/authentic-session-reaches-the-handler")
	verifAssert(w.Status == http.StatusFound, "C16/gate/login-flow-started")
	verifAssert(w.Header().Get("Location") != "", "C16/gate/redirect-to-idp")
}

// Harness_C16_attribute: RequireAttribute admits a request exactly when some value of the named
// attribute of the session equals the required value.
func Harness_C16_attribute() {
	claims := JWTSessionClaims{Attributes: Attributes{}}
	n := verifChoose("values.n", 3)
	vals := []string{}
	for i := 0; i < n; i++ {
		vals = append(vals, verifNondetString("value."+string(rune('0'+i))))
	}
	name := verifNondetString("attr.name")
	claims.Attributes[name] = vals
	other := verifNondetString("other.name")
	verifAssume(other != name)
	claims.Attributes[other] = []string{verifNondetString("other.value")}
	wantName, wantValue := verifNondetString("want.name"), verifNondetString("want.value")
	if verifChoose("case.variants", 2) == 1 {
		// values that differ from the required one only in letter case are different values
		name, wantName = "role", "role"
		vals = []string{[]string{"Admin", "ADMIN", "admin "}[verifChoose("case.value", 3)]}
		wantValue = "admin"
		claims.Attributes = Attributes{name: vals, other: {"x"}}
	}

	ran := false
	inner := http.HandlerFunc(func(w http.ResponseWriter, r *http.Request) { ran = true })
	w := verifNewResponseWriter()
	r := verifRequest("GET", "http://sp.example.com/protected", nil, nil)
	if verifChoose("has.session", 2) == 1 {
		r = r.WithContext(ContextWithSession(r.Context(), claims))
	} else {
		claims.Attributes = nil
	}
	RequireAttribute(wantName, wantValue)(inner).ServeHTTP(w, r)
	verifReach("served")
	has := false
	if claims.Attributes != nil {
		if wantName == name {
			for _, v := range vals {
				has = verifOr(has, v == wantValue)
			}
		}
		if wantName == other {
			has = claims.Attributes[other][0] == wantValue
		}
	}
	if ran {
		verifReach("admitted")
	}
	verifAssert(ran == has, "C16/attribute/admitted-iff-attribute-has-value")
	if !ran {
		verifAssert(w.Status == http.StatusForbidden, "C16/attribute/refusal-is-forbidden")
	}
}

// Harness_C16_new: the claims a session is minted with are exactly the assertion's: the subject is the
// NameID, every claim name (friendly name, else name) carries the values of all attributes of that
// name in document order - also when a name occurs in several attributes or statements - and nothing else
// but the session indexes.
func Harness_C16_new() {
	maxAge := verifNondetDuration("codec.MaxAge")
	verifAssume(maxAge > 0)
	verifAssume(maxAge < 1<<50)
	codec := JWTSessionCodec{Audience: "aud", Issuer: "iss", MaxAge: maxAge}
	now := verifNondetTime("now")
	verifAssume(now.After(time.Unix(100000, 0)))
	verifSetClock(now)
	names := []string{"groups", "role"}
	a := &saml.Assertion{Subject: &saml.Subject{NameID: &saml.NameID{Value: verifNondetString("nameid")}}}
	// the IdP's own idea of how long its session lasts must not stretch the SP session
	if verifChoose("authn.statement", 2) == 1 {
		sna := verifNondetTime("sessionNotOnOrAfter")
		a.AuthnStatements = []saml.AuthnStatement{{SessionIndex: "idx", SessionNotOnOrAfter: &sna}}
	}
	want := map[string][]string{}
	k := 0
	for s := 0; s < 2; s++ {
		st := saml.AttributeStatement{}
		na := 1 + verifChoose("st"+strconv.Itoa(s)+".attrs", 2)
		for i := 0; i < na; i++ {
			tag := "st" + strconv.Itoa(s) + ".a" + strconv.Itoa(i)
			name := names[verifChoose(tag+".name", len(names))]
			attr := saml.Attribute{Name: name}
			if verifChoose(tag+".friendly", 2) == 1 {
				attr = saml.Attribute{Name: "urn:oid:" + strconv.Itoa(k), FriendlyName: name}
			}
			nv := 1 + verifChoose(tag+".values", 2)
			for j := 0; j < nv; j++ {
				v := verifNondetString("v" + strconv.Itoa(k))
				k++
				attr.Values = append(attr.Values, saml.AttributeValue{Type: "xs:string", Value: v})
				want[name] = append(want[name], v)
			}
			st.Attributes = append(st.Attributes, attr)
		}
		a.AttributeStatements = append(a.AttributeStatements, st)
	}
	sess, err := codec.New(a)
	verifAssert(err == nil, "C16/new/no-error")
	if err != nil {
		return
	}
	claims, ok := sess.(JWTSessionClaims)
	verifAssert(ok, "C16/new/claims-type")
	if !ok {
		return
	}
	verifReach("minted")
	verifAssert(claims.Subject == a.Subject.NameID.Value, "C16/new/subject-is-the-name-id")
	verifAssert(claims.ExpiresAt == now.Add(maxAge).Unix(), "C16/new/expires-max-age-after-issue")
	verifAssert(claims.IssuedAt == now.Unix(), "C16/new/issued-now")
	verifAssert(claims.NotBefore == now.Unix(), "C16/new/not-before-now")
	verifAssert(claims.SAMLSession, "C16/new/session-marker")
	verifAssert(claims.Audience == "aud" && claims.Issuer == "iss", "C16/new/audience-and-issuer")
	for _, name := range names {
		got := claims.Attributes[name]
		verifAssert(len(got) == len(want[name]), "C16/new/attribute-value-count")
		if len(got) == len(want[name]) {
			for i := range got {
				verifAssert(got[i] == want[name][i], "C16/new/attribute-values-are-the-assertions")
			}
		}
	}
	n := 0
	for name := range claims.Attributes {
		if name != "groups" && name != "role" && name != "SessionIndex" {
			n++
		}
	}
	verifAssert(n == 0, "C16/new/no-other-attributes")
}
