//go:build verif

package samlsp

import (
	"net/http"
	"net/url"
	"strconv"
	"time"

	"github.com/crewjam/saml"
)

type verifJarCookie struct {
	kind    int // 0 authentic tracking token, 1 authentic session token, 2 garbage value
	name    string
	index   string
	reqID   string
	uri     string
	expired bool
}

// Harness_C17_acs: one ACS step from an arbitrary cookie jar. With IdP-initiated login off,
// a session is established only if the jar holds the authentic, unexpired tracking cookie -
// under its own name - of the very request the response answers; the browser is then sent to
// the URL recorded in the authentic tracking cookie named by RelayState (which is cleared),
// or to the default when no RelayState comes back; otherwise the reply is an error without a session.
func Harness_C17_acs() {
	https := verifChoose("https", 2) == 1
	m := verifMiddleware(https)
	now := verifNondetTime("now")
	verifAssume(now.After(time.Unix(100000, 0)))
	saml.MaxIssueDelay = 90 * time.Second
	tracker := m.RequestTracker.(CookieRequestTracker)
	session := m.Session.(CookieSessionProvider)

	// the cookie jar
	n := verifChoose("jar.n", verifParam("jar.max", 2)+1)
	var jar []verifJarCookie
	var cookies []*http.Cookie
	for i := 0; i < n; i++ {
		t := "jar." + strconv.Itoa(i)
		c := verifJarCookie{kind: verifChoose(t+".kind", 3)}
		value := ""
		switch c.kind {
		case 0:
			// the tracked URI is the path-absolute URL of the original request
			c.index, c.reqID, c.uri = verifNondetString(t+".index"), verifNondetString(t+".reqID"), "/"+verifNondetStringNoColon(t+".uri")
			// minted 10 s ago (live), or 100 s, 269 s or an hour ago (past the 90 s lifetime: just, a few minutes, far)
			ages := []time.Duration{10 * time.Second, 100 * time.Second, 269 * time.Second, time.Hour}
			ai := verifChoose(t+".expired", len(ages))
			age := ages[ai]
			c.expired = ai > 0
			verifSetClock(now.Add(-age))
			v, err := tracker.Codec.Encode(TrackedRequest{Index: c.index, SAMLRequestID: c.reqID, URI: c.uri})
			if err != nil {
				return
			}
			value = v
		case 1:
			verifSetClock(now.Add(-10 * time.Second))
			s, err := session.Codec.New(&saml.Assertion{})
			if err != nil {
				return
			}
			v, err := session.Codec.Encode(s)
			if err != nil {
				return
			}
			value = v
		default:
			value = verifNondetString(t + ".garbage")
		}
		if verifChoose(t+".named-by-index", 2) == 1 {
			c.name = "saml_" + c.index
		} else {
			c.name = verifNondetString(t + ".name")
		}
		jar = append(jar, c)
		cookies = append(cookies, &http.Cookie{Name: c.name, Value: value})
	}
	// cookie names are pairwise distinct (a browser keeps one cookie per name and path)
	for i := range jar {
		for j := 0; j < i; j++ {
			verifAssume(jar[i].name != jar[j].name)
		}
	}
	verifSetClock(now)

	answers := verifNondetString("answers")
	relayState := verifNondetString("relayState")
	user := verifNondetString("user")
	form := url.Values{}
	form.Set("SAMLResponse", verifSignedResponse(&m.ServiceProvider, answers, user, now))
	if relayState != "" {
		form.Set("RelayState", relayState)
	}
	w := verifNewResponseWriter()
	r := verifRequest("POST", m.ServiceProvider.AcsURL.String(), form, cookies)
	m.ServeACS(w, r)

	verifReach("served")
	verifAssert(w.WriteHeaderCalls == 1, "C17/acs/exactly-one-reply")
	var sessionCookie *http.Cookie
	set := verifSetCookies(w)
	for _, c := range set {
		if c.Name == "token" && c.Value != "" {
			sessionCookie = c
		}
	}
	// frame: the step touches no cookie but the session cookie and the tracking cookie RelayState names, so the
	// browser's other pending flows stay pending (every later step starts from a jar that still holds their cookies)
	for _, c := range set {
		verifAssert(verifOr(c.Name == "token", verifAnd(relayState != "", c.Name == "saml_"+relayState)), "C17/acs/other-cookies-untouched")
	}
	if sessionCookie == nil {
		verifReach("refused")
		verifAssert(w.Status == http.StatusForbidden, "C17/acs/refusal-is-an-error-reply")
		return
	}
	verifReach("session-established")
	// (a) the response answers a request whose authentic, unexpired, properly named tracking cookie is present
	answered := false
	for i := range jar {
		c := &jar[i]
		good := c.kind == 0 && !c.expired
		answered = verifOr(answered, verifAnd(good, verifAnd(c.name == "saml_"+c.index, c.reqID == answers)))
	}
	verifAssert(answered, "C17/acs/response-answers-a-tracked-request-of-this-browser")
	// (b) where the browser goes
	verifAssert(w.Status == http.StatusFound, "C17/acs/redirect-after-login")
	loc := w.Header().Get("Location")
	if relayState == "" {
		verifAssert(loc == "/", "C17/acs/default-location-without-relay-state")
	} else {
		toOwnURL := false
		for i := range jar {
			c := &jar[i]
			good := c.kind == 0 && !c.expired
			toOwnURL = verifOr(toOwnURL, verifAnd(good, verifAnd(c.index == relayState, verifAnd(c.name == "saml_"+relayState, loc == c.uri))))
		}
		verifAssert(toOwnURL, "C17/acs/location-is-the-tracked-url-named-by-relay-state")
		cleared := false
		for _, c := range set {
			cleared = verifOr(cleared, verifAnd(c.Name == "saml_"+relayState, c.Value == ""))
		}
		verifAssert(cleared, "C17/acs/tracking-cookie-cleared")
	}
	// (c) cookie flags
	verifAssert(sessionCookie.HttpOnly, "C17/acs/session-cookie-http-only")
	verifAssert(sessionCookie.Secure == https, "C17/acs/session-cookie-secure-iff-https")
}

// Harness_C17_lifetime: the tracking codec and tracker live exactly MaxIssueDelay.
func Harness_C17_lifetime() {
	saml.MaxIssueDelay = verifNondetDuration("MaxIssueDelay")
	m := verifMiddleware(false)
	tracker := m.RequestTracker.(CookieRequestTracker)
	codec := tracker.Codec.(JWTTrackedRequestCodec)
	verifReach("wired")
	verifAssert(tracker.MaxAge == saml.MaxIssueDelay, "C17/lifetime/tracker-max-age-is-max-issue-delay")
	verifAssert(codec.MaxAge == saml.MaxIssueDelay, "C17/lifetime/codec-max-age-is-max-issue-delay")
	verifAssert(tracker.NamePrefix == "saml_", "C17/lifetime/cookie-prefix")
}
