//go:build verif

package samlsp

import (
	"net/url"
	"time"

	"github.com/golang-jwt/jwt/v4"

	"github.com/crewjam/saml"
)

func verifIDPMetadata() *saml.EntityDescriptor {
	return &saml.EntityDescriptor{
		EntityID: "https://idp.example.com/metadata",
		IDPSSODescriptors: []saml.IDPSSODescriptor{{
			SSODescriptor: saml.SSODescriptor{RoleDescriptor: saml.RoleDescriptor{KeyDescriptors: []saml.KeyDescriptor{{
				Use:     "signing",
				KeyInfo: saml.KeyInfo{X509Data: saml.X509Data{X509Certificates: []saml.X509Certificate{{Data: verifTestCertB64(0, 0)}}}},
			}}}},
			SingleSignOnServices: []saml.Endpoint{{Binding: saml.HTTPRedirectBinding, Location: "https://idp.example.com/sso"}},
		}},
	}
}

// verifMiddleware: the default wiring of samlsp.New for an http or https deployment.
func verifMiddleware(https bool) *Middleware {
	root := "http://sp.example.com/"
	if https {
		root = "https://sp.example.com/"
	}
	u, _ := url.Parse(root)
	m, err := New(Options{
		URL:         *u,
		Key:         verifTestSigner(0, 0),
		Certificate: verifTestCert(0, 0),
		IDPMetadata: verifIDPMetadata(),
	})
	if err != nil {
		verifAssume(false)
	}
	return m
}

// verifSetClock pins the library clock and the JWT clock.
func verifSetClock(t time.Time) {
	saml.TimeNow = func() time.Time { return t }
	jwt.TimeFunc = func() time.Time { return t }
}

type verifRandReader struct {
	drawn *[]byte
	calls *int
}

func (r verifRandReader) Read(p []byte) (int, error) {
	*r.calls++
	for i := range p {
		b := verifNondetByte("rand.byte")
		p[i] = b
		*r.drawn = append(*r.drawn, b)
	}
	return len(p), nil
}
