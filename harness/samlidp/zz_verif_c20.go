//go:build verif

package samlidp

import (
	"net/http"

	"github.com/crewjam/saml"
)

// Harness_C20_ops: one request handler or store method per path, on a Server over the real
// MemoryStore. The engine records the lock events and the accesses to the shared maps along
// each path; the interleaving model composes these traces under every schedule.
func Harness_C20_ops() {
	ms := &MemoryStore{data: map[string]string{}}
	s := verifServer(ms)
	verifNameObject("store.mu", &ms.mu)
	verifNameObject("store.data", &ms.data)
	verifNameObject("store.data", ms.data)
	verifNameObject("server.mu", &s.idpConfigMu)
	verifNameObject("server.registry", &s.serviceProviders)
	verifNameObject("server.registry", s.serviceProviders)
	// contents (put through the store itself; set-up events before verifOp are not part of a trace)
	cookie := "session-id"
	populated := verifChoose("store.populated", 3)
	if populated >= 1 {
		_ = ms.Put("/users/alice", &User{Name: "alice"})
		_ = ms.Put("/services/svc", &Service{Name: "svc", Metadata: *verifSPMetadata("https://sp.example.com/metadata")})
		registered := verifSPMetadata("https://sp.example.com/metadata")
		s.serviceProviders["https://sp.example.com/metadata"] = registered
		// a registered descriptor is handed out by GetServiceProvider and read without any lock for the rest of a request
		verifNameHeapObject("registry.descriptor", registered)
		_ = ms.Put("/shortcuts/sc", &Shortcut{Name: "sc", ServiceProviderID: "https://sp.example.com/metadata"})
		_ = ms.Put("/sessions/"+cookie, &saml.Session{ID: cookie, NameID: "alice", ExpireTime: saml.TimeNow().Add(sessionMaxAge)})
		if populated == 2 {
			// the state after two service names shared one entity ID and one of them was deleted:
			// the service is still stored, its entity is no longer registered
			delete(s.serviceProviders, "https://sp.example.com/metadata")
		}
	}
	keys := []string{"/users/alice", "/services/svc", "sc", "svc", "alice", "https://sp.example.com/metadata", "absent"}
	key := keys[verifChoose("key", len(keys))]
	w := verifNewResponseWriter()
	switch verifChoose("op", 12) {
	case 0:
		verifOp("store.Get")
		var u User
		_ = ms.Get(key, &u)
	case 1:
		verifOp("store.Put")
		_ = ms.Put(key, &User{Name: "n"})
	case 2:
		verifOp("store.Delete")
		_ = ms.Delete(key)
	case 3:
		verifOp("store.List")
		_, _ = ms.List(key)
	case 4:
		verifOp("server.GetServiceProvider")
		_, _ = s.GetServiceProvider(nil, key)
	case 5:
		verifOp("server.HandlePutService")
		r := verifRequestBody("PUT", "https://idp.example.com/services/x", verifMarshalXML(verifSPMetadata("https://other.example.com/metadata")), nil)
		r.SetPathValue("id", key)
		s.HandlePutService(w, r)
	case 6:
		verifOp("server.HandleDeleteService")
		r := verifRequestBody("DELETE", "https://idp.example.com/services/x", nil, nil)
		r.SetPathValue("id", key)
		s.HandleDeleteService(w, r)
	case 7:
		verifOp("server.HandleIDPInitiated")
		r := verifRequest("GET", "https://idp.example.com/login/x", nil, []*http.Cookie{{Name: "session", Value: cookie}})
		r.SetPathValue("shortcut", key)
		s.HandleIDPInitiated(w, r)
	case 8:
		verifOp("server.HandleLogin")
		r := verifRequest("GET", "https://idp.example.com/login", nil, []*http.Cookie{{Name: "session", Value: cookie}})
		s.HandleLogin(w, r)
	case 9:
		verifOp("server.HandlePutUser")
		r := verifRequestBody("PUT", "https://idp.example.com/users/x", nil, nil)
		r.SetPathValue("id", key)
		s.HandlePutUser(w, r)
	case 11:
		// metadata refresh: a PUT for an entity ID that is already registered
		verifOp("server.HandlePutService(refresh)")
		r := verifRequestBody("PUT", "https://idp.example.com/services/x", verifMarshalXML(verifSPMetadata("https://sp.example.com/metadata")), nil)
		r.SetPathValue("id", key)
		s.HandlePutService(w, r)
	case 10:
		verifOp("server.HandleListServices")
		s.HandleListServices(w, verifRequest("GET", "https://idp.example.com/services/", nil, nil))
	}
	verifReach("op-done")
	_ = saml.StatusSuccess
}

// Harness_C20_seq: each MemoryStore method meets the sequential key-value map specification.
func Harness_C20_seq() {
	ms := &MemoryStore{}
	if verifChoose("nilmap", 2) == 0 {
		ms.data = map[string]string{}
	}
	k1, k2 := verifNondetString("k1"), verifNondetString("k2")
	verifAssume(k1 != k2)
	u1 := User{Name: verifNondetString("u1.name"), Email: verifNondetString("u1.email")}
	verifAssert(ms.Put(k1, &u1) == nil, "C20/seq/put-succeeds")
	var got User
	verifAssert(ms.Get(k1, &got) == nil, "C20/seq/get-after-put")
	verifAssert(got.Name == u1.Name && got.Email == u1.Email, "C20/seq/get-returns-what-was-put")
	verifAssert(ms.Get(k2, &got) == ErrNotFound, "C20/seq/get-of-absent-key-is-not-found")
	u2 := User{Name: verifNondetString("u2.name")}
	verifAssert(ms.Put(k1, &u2) == nil, "C20/seq/overwrite")
	verifAssert(ms.Get(k1, &got) == nil && got.Name == u2.Name, "C20/seq/get-returns-latest")
	verifAssert(ms.Delete(k1) == nil, "C20/seq/delete")
	verifAssert(ms.Get(k1, &got) == ErrNotFound, "C20/seq/deleted-key-is-not-found")
	verifAssert(ms.Delete(k2) == nil, "C20/seq/delete-of-absent-key-is-not-an-error")
	_ = ms.Put("/users/a", &u1)
	_ = ms.Put("/services/b", &u1)
	l, err := ms.List("/users/")
	verifAssert(err == nil && len(l) == 1 && l[0] == "a", "C20/seq/list-returns-keys-under-prefix-trimmed")
	verifReach("sequential")
}
