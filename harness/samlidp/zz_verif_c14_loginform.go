//go:build verif

package samlidp

import (
	"github.com/crewjam/saml"
)

const verifHostile = `"><script>verif()</script>`

// Harness_C14_loginform: the bundled IdP's login form with a relay state, request buffer and toast
// that start with markup: they come out of contextual escaping of plain strings, and the form posts
// back to the IdP's own login URL with the relay state and the request it was given.
func Harness_C14_loginform() {
	s := verifServer(newVerifStore(false))
	relayState := verifHostile + verifNondetString("relayState")
	toast := verifHostile + verifNondetString("toast")
	req := &saml.IdpAuthnRequest{IDP: &s.IDP, RelayState: relayState, RequestBuffer: []byte(verifHostile)}
	w := verifNewResponseWriter()
	s.sendLoginForm(w, req, toast)
	verifReach("login-form")
	body := w.Body
	verifAssert(verifFormInert(body, verifHostile), "C14/loginform/peer-strings-are-inert")
	action, ok := verifFormField(body, "action")
	verifAssert(ok, "C14/loginform/action-present")
	if ok {
		verifAssert(action == s.IDP.LoginURL.String(), "C14/loginform/action-is-the-idp-login-url")
	}
	rs, ok := verifFormField(body, "RelayState")
	verifAssert(ok, "C14/loginform/relay-state-field-present")
	if ok {
		verifAssert(rs == relayState, "C14/loginform/relay-state-field-carries-the-relay-state")
	}
	_, ok = verifFormField(body, "SAMLRequest")
	verifAssert(ok, "C14/loginform/request-field-present")
}
