//go:build verif

package samlidp

import (
	"net/http"

	"github.com/crewjam/saml"
)

// registryInvariant: the in-memory registry is exactly the entity IDs of the stored services.
func registryInvariant(label string, st *verifStore, s *Server) {
	for _, svc := range st.services {
		md, ok := s.serviceProviders[svc.Metadata.EntityID]
		verifAssert(ok, label+"/stored-service-is-registered")
		if ok {
			verifAssert(md.EntityID == svc.Metadata.EntityID, label+"/registered-under-its-own-entity-id")
		}
	}
	for id := range s.serviceProviders {
		found := false
		for _, svc := range st.services {
			found = verifOr(found, svc.Metadata.EntityID == id)
		}
		verifAssert(found, label+"/registered-entity-is-stored")
	}
}

// Harness_C19_registry: from any state satisfying the invariant, put / delete of a service (with
// store faults) re-establishes it, and a server re-created over the store has the same registry.
func Harness_C19_registry() {
	st := newVerifStore(false)
	s := verifServer(st)
	n := verifChoose("services.n", 3)
	names := []string{verifNondetString("svc0.name"), verifNondetString("svc1.name")}
	ids := []string{verifNondetString("svc0.entityID"), verifNondetString("svc1.entityID")}
	verifAssume(names[0] != names[1])
	verifAssume(ids[0] != ids[1])
	for i := 0; i < n; i++ {
		md := verifSPMetadata(ids[i])
		st.services["/services/"+names[i]] = Service{Name: names[i], Metadata: *md}
		s.serviceProviders[ids[i]] = md
	}
	st.faults = verifParam("store.faults", 1) == 1

	name := verifNondetString("op.name")
	w := verifNewResponseWriter()
	switch verifChoose("op", 3) {
	case 0:
		newID := verifNondetString("op.entityID")
		r := verifRequestBody("PUT", "https://idp.example.com/services/x", verifMarshalXML(verifSPMetadata(newID)), nil)
		r.SetPathValue("id", name)
		s.HandlePutService(w, r)
		verifReach("put")
	case 1:
		r := verifRequestBody("DELETE", "https://idp.example.com/services/x", nil, nil)
		r.SetPathValue("id", name)
		s.HandleDeleteService(w, r)
		verifReach("delete")
	case 2:
		verifReach("no-op")
	}
	st.faults = false
	registryInvariant("C19/registry", st, s)
	if verifChoose("op.done", 1) == 0 {
		verifAssert(verifOr(w.Replied(), true), "C19/registry/reply")
	}
	// restart equivalence: a new server over the same store serves exactly the same registry
	s2 := verifServer(st)
	if err := s2.initializeServices(); err != nil {
		return
	}
	verifReach("restarted")
	for id := range s.serviceProviders {
		_, ok := s2.serviceProviders[id]
		verifAssert(ok, "C19/restart/registry-survives-restart")
	}
	for id := range s2.serviceProviders {
		_, ok := s.serviceProviders[id]
		verifAssert(ok, "C19/restart/restart-adds-nothing")
	}
	_ = http.StatusOK
	_ = saml.StatusSuccess
}
