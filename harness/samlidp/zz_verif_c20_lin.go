//go:build verif

package samlidp

import "strconv"

// One operation of a concurrent history on the MemoryStore and what it returned.
type verifLinOp struct {
	kind     int    // 0 Get, 1 Put, 2 Delete, 3 List
	key      int    // index into verifLinKeys
	val      string // Put: the user name stored (arbitrary)
	h        int
	notFound bool   // Get: ErrNotFound
	got      string // Get: the name read
	list     []string
	fail     bool // any other error
}

var verifLinKeys = []string{"/users/a", "/users/b"}
var verifLinNames = []string{"a", "b"}

func (o *verifLinOp) run(ms *MemoryStore) {
	o.h = verifOpBegin()
	switch o.kind {
	case 0:
		var u User
		err := ms.Get(verifLinKeys[o.key], &u)
		o.notFound = err == ErrNotFound
		o.fail = err != nil && err != ErrNotFound
		o.got = u.Name
	case 1:
		o.fail = ms.Put(verifLinKeys[o.key], &User{Name: o.val}) != nil
	case 2:
		o.fail = ms.Delete(verifLinKeys[o.key]) != nil
	case 3:
		l, err := ms.List("/users/")
		o.fail = err != nil
		o.list = l
	}
	verifOpEnd(o.h)
}

// The sequential specification: a map from the two keys to names.
type verifLinModel struct {
	present [2]bool
	val     [2]string
}

// apply runs o on the model; ok says whether what o returned is what the model returns.
func (o *verifLinOp) apply(m verifLinModel) (verifLinModel, bool) {
	switch o.kind {
	case 0:
		if m.present[o.key] {
			return m, verifAnd(!o.fail, verifAnd(!o.notFound, o.got == m.val[o.key]))
		}
		return m, verifAnd(!o.fail, o.notFound)
	case 1:
		m.present[o.key] = true
		m.val[o.key] = o.val
		return m, !o.fail
	case 2:
		m.present[o.key] = false
		m.val[o.key] = ""
		return m, !o.fail
	}
	n := 0
	ok := !o.fail
	for i := range verifLinKeys {
		in := false
		for _, e := range o.list {
			if e == verifLinNames[i] {
				in = true
			}
		}
		if in != m.present[i] {
			ok = false
		}
		if m.present[i] {
			n++
		}
	}
	return m, ok && len(o.list) == n
}

func verifLinModelEq(a, b verifLinModel) bool {
	ok := true
	for i := range verifLinKeys {
		if a.present[i] != b.present[i] {
			return false
		}
		if a.present[i] {
			ok = verifAnd(ok, a.val[i] == b.val[i])
		}
	}
	return ok
}

// verifLinearizable: some total order of the operations, consistent with the real-time order
// (an operation that returned before another was invoked comes first), takes the sequential
// map from `m` through the observed results to `final`.
func verifLinearizable(ops []*verifLinOp, done []bool, m verifLinModel, final verifLinModel) bool {
	all := true
	for i := range ops {
		if !done[i] {
			all = false
		}
	}
	if all {
		return verifLinModelEq(m, final)
	}
	res := false
	for i, o := range ops {
		if done[i] {
			continue
		}
		minimal := true
		for j, p := range ops {
			if j != i && !done[j] && verifOpReturned(p.h) < verifOpInvoked(o.h) {
				minimal = false
			}
		}
		if !minimal {
			continue
		}
		m2, ok := o.apply(m)
		done[i] = true
		res = verifOr(res, verifAnd(ok, verifLinearizable(ops, done, m2, final)))
		done[i] = false
	}
	return res
}

// Harness_C20_linearizable: threads of store operations run under every schedule at lock
// granularity from an arbitrary initial store (empty, one entry, or one entry after a sequential past of puts and deletes); the results and the final contents must be
// those of some linearization against the sequential map. Values are arbitrary strings.
func Harness_C20_linearizable() {
	ms := &MemoryStore{}
	var init verifLinModel
	switch verifChoose("initial", 4) {
	case 0: // the zero-value store: no map yet
	case 1:
		ms.data = map[string]string{}
	case 2:
		ms.data = map[string]string{}
		v := verifNondetString("initial.a")
		if ms.Put(verifLinKeys[0], &User{Name: v}) != nil {
			return
		}
		init.present[0], init.val[0] = true, v
	case 3:
		// an aged store: one live entry, and a sequential past of `past` other keys that were put and
		// deleted again (every length up to lin.past: behaviour that depends on how much has been
		// deleted so far is reached from the history just before its threshold)
		ms.data = map[string]string{}
		v := verifNondetString("initial.a")
		if ms.Put(verifLinKeys[0], &User{Name: v}) != nil {
			return
		}
		init.present[0], init.val[0] = true, v
		past := verifChoose("initial.past", verifParam("lin.past", 12)) + 1
		for i := 0; i < past; i++ {
			k := "/users/past" + strconv.Itoa(i)
			if ms.Put(k, &User{Name: "past"}) != nil || ms.Delete(k) != nil {
				return
			}
		}
	}
	nthreads := verifParam("lin.threads", 2)
	var threads [][]*verifLinOp
	var ops []*verifLinOp
	for t := 0; t < nthreads; t++ {
		n := verifParam("lin.ops."+strconv.Itoa(t), 1)
		var th []*verifLinOp
		for i := 0; i < n; i++ {
			tag := "t" + strconv.Itoa(t) + ".op" + strconv.Itoa(i)
			o := &verifLinOp{kind: verifChoose(tag+".kind", 4)}
			if o.kind != 3 {
				o.key = verifChoose(tag+".key", 2)
			}
			if o.kind == 1 {
				o.val = verifNondetString(tag + ".val")
			}
			th = append(th, o)
			ops = append(ops, o)
		}
		threads = append(threads, th)
	}
	var fs []func()
	for _, th := range threads {
		th := th
		fs = append(fs, func() {
			for _, o := range th {
				o.run(ms)
			}
		})
	}
	verifConcurrent(fs...)
	verifReach("quiescent")

	// the contents once every operation has returned
	var final verifLinModel
	for i, k := range verifLinKeys {
		var u User
		err := ms.Get(k, &u)
		if err == nil {
			final.present[i], final.val[i] = true, u.Name
		} else {
			verifAssert(err == ErrNotFound, "C20/linearizable/final-read-succeeds")
		}
	}
	verifAssert(verifLinearizable(ops, make([]bool, len(ops)), init, final), "C20/linearizable/history-has-a-linearization")
}
