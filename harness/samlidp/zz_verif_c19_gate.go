//go:build verif

package samlidp

import (
	"encoding/base64"
	"net/http"
	"net/url"
	"time"

	"github.com/crewjam/saml"
)

type verifAuth struct {
	st         *verifStore
	s          *Server
	now        time.Time
	storedName string
	storedPw   string
	hashKind   int
	hasUser    bool
	hasSession bool
	sessID     string
	sessExpire time.Time
	user       string
	password   string
	cookieVal  string
	post       bool
	form       url.Values
	cookies    []*http.Cookie
}

// legit: the request carries the stored user's current password or the cookie of a stored unexpired session.
func (a *verifAuth) legit() bool {
	byPw := verifAnd(a.post, verifAnd(a.user != "", verifAnd(a.hasUser, verifAnd(a.user == a.storedName, verifAnd(a.hashKind == 0, a.password == a.storedPw)))))
	byCookie := verifAnd(!verifAnd(a.post, a.user != ""), verifAnd(a.hasSession, verifAnd(a.cookieVal == a.sessID, !a.now.After(a.sessExpire))))
	return verifOr(byPw, byCookie)
}

func verifAuthScenario() *verifAuth {
	a := &verifAuth{}
	a.st = newVerifStore(verifParam("store.faults", 1) == 1)
	a.s = verifServer(a.st)
	a.now = verifNondetTime("now")
	verifAssume(a.now.After(time.Unix(100000, 0)))
	now := a.now
	saml.TimeNow = func() time.Time { return now }
	var drawn []byte
	calls := 0
	saml.RandReader = verifRandReader{&drawn, &calls}
	a.storedName, a.storedPw = verifNondetString("stored.user"), verifNondetString("stored.password")
	verifAssume(a.storedName != "")
	a.hashKind = verifChoose("stored.hashKind", 3)
	a.hasUser = verifChoose("stored.hasUser", 2) == 1
	if a.hasUser {
		verifStoredUser(a.st, a.storedName, a.storedPw, a.hashKind)
	}
	a.hasSession = verifChoose("stored.hasSession", 2) == 1
	a.sessID = verifNondetString("stored.sessionID")
	a.sessExpire = verifNondetTime("stored.session.ExpireTime")
	if a.hasSession {
		a.st.sessions["/sessions/"+a.sessID] = saml.Session{ID: a.sessID, NameID: "stored-session-user", ExpireTime: a.sessExpire}
	}
	a.post = verifChoose("method", 2) == 1
	a.form = url.Values{}
	a.user, a.password = verifNondetString("form.user"), verifNondetString("form.password")
	if a.user != "" {
		a.form.Set("user", a.user)
	}
	a.form.Set("password", a.password)
	a.cookieVal = verifNondetString("cookie.session")
	if verifChoose("hasCookie", 2) == 1 {
		a.cookies = append(a.cookies, &http.Cookie{Name: "session", Value: a.cookieVal})
	} else {
		a.cookieVal = ""
	}
	return a
}

func verifSPMetadata(entityID string) *saml.EntityDescriptor {
	return &saml.EntityDescriptor{
		EntityID: entityID,
		SPSSODescriptors: []saml.SPSSODescriptor{{
			AssertionConsumerServices: []saml.IndexedEndpoint{{Binding: saml.HTTPPostBinding, Location: "https://sp.example.com/saml/acs", Index: 1}},
		}},
	}
}

// Harness_C19_sso: the SSO endpoint writes a SAML response only for an authenticated user and a
// service provider registered at that moment, and sends exactly one reply whatever the store does.
func Harness_C19_sso() {
	a := verifAuthScenario()
	registered := verifChoose("registered", 2) == 1
	spID := verifNondetString("sp.EntityID")
	if registered {
		a.s.serviceProviders[spID] = verifSPMetadata(spID)
	}
	issuer := verifNondetString("request.Issuer")
	ar := &saml.AuthnRequest{ID: "id-request", Version: "2.0", IssueInstant: a.now, Issuer: &saml.Issuer{Value: issuer}}
	a.form.Set("SAMLRequest", base64.StdEncoding.EncodeToString(verifMarshalXML(ar)))
	// the SSO endpoint is reached by POST (the login form posts back to it)
	r := verifRequest("POST", "https://idp.example.com/sso", a.form, a.cookies)
	a.post = true
	w := verifNewResponseWriter()
	a.s.IDP.ServeSSO(w, r)

	verifReach("served")
	verifAssert(w.Replied(), "C19/sso/a-reply-is-sent")
	verifAssert(w.WriteHeaderCalls <= 1, "C19/sso/at-most-one-status")
	if verifIsResponseForm(w) {
		verifReach("response-emitted")
		verifAssert(a.legit(), "C19/sso/response-only-for-authenticated-user")
		verifAssert(verifAnd(registered, issuer == spID), "C19/sso/response-only-to-a-registered-service")
	} else {
		verifReach("no-response")
	}
}

// Harness_C19_shortcut: the IdP-initiated shortcut needs a session and a registry hit at that moment.
func Harness_C19_shortcut() {
	a := verifAuthScenario()
	registered := verifChoose("registered", 2) == 1
	spID := verifNondetString("sp.EntityID")
	if registered {
		a.s.serviceProviders[spID] = verifSPMetadata(spID)
	}
	scName := verifNondetString("shortcut.name")
	target := verifNondetString("shortcut.target")
	if verifChoose("shortcut.stored", 2) == 1 {
		a.st.shortcuts["/shortcuts/"+scName] = Shortcut{Name: scName, ServiceProviderID: target}
	}
	var r *http.Request
	if a.post {
		r = verifRequest("POST", "https://idp.example.com/login/x", a.form, a.cookies)
	} else {
		r = verifRequest("GET", "https://idp.example.com/login/x", nil, a.cookies)
	}
	if err := r.ParseForm(); err != nil {
		return
	}
	r.SetPathValue("shortcut", scName)
	w := verifNewResponseWriter()
	a.s.HandleIDPInitiated(w, r)

	verifReach("served")
	verifAssert(w.Replied(), "C19/shortcut/a-reply-is-sent")
	verifAssert(w.WriteHeaderCalls <= 1, "C19/shortcut/at-most-one-status")
	if verifIsResponseForm(w) {
		verifReach("response-emitted")
		verifAssert(a.legit(), "C19/shortcut/response-only-for-authenticated-user")
		verifAssert(verifAnd(registered, target == spID), "C19/shortcut/response-only-to-a-registered-service")
	} else {
		verifReach("no-response")
	}
}
