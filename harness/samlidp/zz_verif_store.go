//go:build verif

package samlidp

import (
	"net/url"

	"golang.org/x/crypto/bcrypt"

	"github.com/crewjam/saml"
	"github.com/crewjam/saml/logger"
)

type verifStoreErr struct{}

func (verifStoreErr) Error() string { return "verif: store I/O failure" }

type verifNopLogger struct{}

func (verifNopLogger) Printf(string, ...interface{}) {}
func (verifNopLogger) Print(...interface{})          {}
func (verifNopLogger) Println(...interface{})        {}
func (verifNopLogger) Fatal(...interface{})          {}
func (verifNopLogger) Fatalf(string, ...interface{}) {}
func (verifNopLogger) Fatalln(...interface{})        {}
func (verifNopLogger) Panic(...interface{})          {}
func (verifNopLogger) Panicf(string, ...interface{}) {}
func (verifNopLogger) Panicln(...interface{})        {}

var _ logger.Interface = verifNopLogger{}

// verifStore is a typed key-value store behind the Store interface. Every call may fail with an
// I/O error chosen by the solver (fault injection), and it records what was read and written.
type verifStore struct {
	users     map[string]User
	sessions  map[string]saml.Session
	services  map[string]Service
	shortcuts map[string]Shortcut
	faults    bool
	gotUser   []string
	gotSess   []string
	puts      []string
}

func newVerifStore(faults bool) *verifStore {
	return &verifStore{users: map[string]User{}, sessions: map[string]saml.Session{}, services: map[string]Service{}, shortcuts: map[string]Shortcut{}, faults: faults}
}

func (s *verifStore) fault() error {
	if s.faults && verifNondetBool("store.fault") {
		return verifStoreErr{}
	}
	return nil
}

func (s *verifStore) Get(key string, value interface{}) error {
	if err := s.fault(); err != nil {
		return err
	}
	switch v := value.(type) {
	case *User:
		u, ok := s.users[key]
		if !ok {
			return ErrNotFound
		}
		*v = u
		s.gotUser = append(s.gotUser, key)
	case *saml.Session:
		x, ok := s.sessions[key]
		if !ok {
			return ErrNotFound
		}
		*v = x
		s.gotSess = append(s.gotSess, key)
	case *Service:
		x, ok := s.services[key]
		if !ok {
			return ErrNotFound
		}
		*v = x
	case *Shortcut:
		x, ok := s.shortcuts[key]
		if !ok {
			return ErrNotFound
		}
		*v = x
	default:
		return verifStoreErr{}
	}
	return nil
}

func (s *verifStore) Put(key string, value interface{}) error {
	if err := s.fault(); err != nil {
		return err
	}
	s.puts = append(s.puts, key)
	switch v := value.(type) {
	case *User:
		s.users[key] = *v
	case *saml.Session:
		s.sessions[key] = *v
	case **saml.Session:
		s.sessions[key] = **v
	case *Service:
		s.services[key] = *v
	case *Shortcut:
		s.shortcuts[key] = *v
	default:
		return verifStoreErr{}
	}
	return nil
}

func (s *verifStore) Delete(key string) error {
	if err := s.fault(); err != nil {
		return err
	}
	delete(s.users, key)
	delete(s.sessions, key)
	delete(s.services, key)
	delete(s.shortcuts, key)
	return nil
}

func (s *verifStore) List(prefix string) ([]string, error) {
	if err := s.fault(); err != nil {
		return nil, err
	}
	rv := []string{}
	if prefix == "/services/" {
		for k := range s.services {
			rv = append(rv, k[len(prefix):])
		}
	}
	return rv, nil
}

// verifServer: a Server over the store, as samlidp.New wires it (without the mux).
func verifServer(st Store) *Server {
	u, _ := url.Parse("https://idp.example.com")
	s := &Server{
		serviceProviders: map[string]*saml.EntityDescriptor{},
		logger:           verifNopLogger{},
		Store:            st,
	}
	s.IDP = saml.IdentityProvider{
		Key: verifTestSigner(0, 0), Certificate: verifTestCert(0, 0), Logger: verifNopLogger{},
		MetadataURL: *u, SSOURL: *u, LoginURL: *u,
	}
	s.IDP.MetadataURL.Path, s.IDP.SSOURL.Path, s.IDP.LoginURL.Path = "/metadata", "/sso", "/login"
	s.IDP.SessionProvider = s
	s.IDP.ServiceProviderProvider = s
	return s
}

// verifStoredUser puts a user with a password kind: 0 real hash of `password`, 1 no hash stored, 2 garbage hash.
func verifStoredUser(st *verifStore, name string, password string, kind int) User {
	u := User{Name: name, Email: verifNondetString("user.Email"), CommonName: verifNondetString("user.CommonName")}
	switch kind {
	case 0:
		h, err := bcrypt.GenerateFromPassword([]byte(password), bcrypt.MinCost)
		if err != nil {
			verifAssume(false)
		}
		u.HashedPassword = h
	case 2:
		u.HashedPassword = []byte("not a bcrypt hash")
	}
	st.users["/users/"+name] = u
	return u
}
