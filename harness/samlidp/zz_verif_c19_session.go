//go:build verif

package samlidp

import (
	"net/http"
	"net/url"
	"time"

	"github.com/crewjam/saml"
)

// Harness_C19_session: Server.GetSession yields a session only for the stored user's current
// password or the cookie of a stored, unexpired session - for arbitrary store contents, request
// shapes, clock and store faults - and otherwise sends exactly one reply.
func Harness_C19_session() {
	st := newVerifStore(verifParam("store.faults", 1) == 1)
	s := verifServer(st)
	now := verifNondetTime("now")
	verifAssume(now.After(time.Unix(100000, 0)))
	saml.TimeNow = func() time.Time { return now }
	var drawn []byte
	calls := 0
	saml.RandReader = verifRandReader{&drawn, &calls}

	// arbitrary store contents
	storedName, storedPw := verifNondetString("stored.user"), verifNondetString("stored.password")
	verifAssume(storedName != "")
	hashKind := verifChoose("stored.hashKind", 3)
	hasUser := verifChoose("stored.hasUser", 2) == 1
	var stored User
	if hasUser {
		stored = verifStoredUser(st, storedName, storedPw, hashKind)
	}
	hasSession := verifChoose("stored.hasSession", 2) == 1
	sessID := verifNondetString("stored.sessionID")
	var storedSess saml.Session
	if hasSession {
		storedSess = saml.Session{ID: sessID, NameID: verifNondetString("stored.session.NameID"), ExpireTime: verifNondetTime("stored.session.ExpireTime"), UserName: verifNondetString("stored.session.UserName")}
		st.sessions["/sessions/"+sessID] = storedSess
	}

	// arbitrary request
	method := "GET"
	if verifChoose("method", 2) == 1 {
		method = "POST"
	}
	form := url.Values{}
	user, password := verifNondetString("form.user"), verifNondetString("form.password")
	if user != "" {
		form.Set("user", user)
	}
	form.Set("password", password)
	var cookies []*http.Cookie
	cookieVal := verifNondetString("cookie.session")
	if verifChoose("hasCookie", 2) == 1 {
		cookies = append(cookies, &http.Cookie{Name: "session", Value: cookieVal})
	} else {
		cookieVal = ""
	}
	var r *http.Request
	if method == "POST" {
		r = verifRequest(method, "https://idp.example.com/sso", form, cookies)
	} else {
		r = verifRequest(method, "https://idp.example.com/sso", nil, cookies)
	}
	if err := r.ParseForm(); err != nil {
		return
	}
	w := verifNewResponseWriter()
	sess := s.GetSession(w, r, &saml.IdpAuthnRequest{IDP: &s.IDP})

	verifReach("returned")
	if sess == nil {
		verifReach("no-session")
		verifAssert(w.Replied(), "C19/session/refusal-sends-a-reply")
		verifAssert(w.WriteHeaderCalls <= 1, "C19/session/at-most-one-status")
		return
	}
	verifReach("session")
	byPassword := verifAnd(method == "POST", user != "")
	if byPassword {
		verifReach("session-by-password")
		verifAssert(hasUser, "C19/session/login-needs-a-stored-user")
		verifAssert(user == storedName, "C19/session/login-is-for-the-stored-user")
		verifAssert(hashKind == 0, "C19/session/login-needs-a-stored-password-hash")
		verifAssert(password == storedPw, "C19/session/login-needs-the-current-password")
		verifAssert(sess.NameID == stored.Email, "C19/session/session-describes-the-stored-user")
		verifAssert(sess.UserName == stored.Name, "C19/session/session-user-name")
		verifAssert(!w.Replied(), "C19/session/login-success-leaves-the-reply-to-the-caller")
		verifAssert(len(verifSetCookies(w)) == 1, "C19/session/login-sets-the-session-cookie")
	} else {
		verifReach("session-by-cookie")
		verifAssert(hasSession, "C19/session/cookie-needs-a-stored-session")
		verifAssert(cookieVal == sessID, "C19/session/cookie-names-the-stored-session")
		verifAssert(!now.After(storedSess.ExpireTime), "C19/session/stored-session-not-expired")
		verifAssert(sess.NameID == storedSess.NameID, "C19/session/session-is-the-stored-session")
		verifAssert(!w.Replied(), "C19/session/cookie-success-leaves-the-reply-to-the-caller")
	}
}
