//go:build verif

package samlidp

type verifRandReader struct {
	drawn *[]byte
	calls *int
}

func (r verifRandReader) Read(p []byte) (int, error) {
	*r.calls++
	for i := range p {
		b := verifNondetByte("rand.byte")
		p[i] = b
		*r.drawn = append(*r.drawn, b)
	}
	return len(p), nil
}
