"""Per-property harness registry for ./check."""

# library packages whose functions are executed from their own SSA rather than stubbed
DEFAULT_EXTRA = ['github.com/beevik/etree', 'github.com/golang-jwt/jwt/v4']

NOT_APPLICABLE = {
    'C07': 'decided by library code outside the reach of the encoder: etree character escaping, exclusive c14n, RSA/ECDSA signing and verification, AES/OAEP, and the encoding/xml tokenizer (DESIGN.md section 6)',
}

CHECKS = {
    'C10': {
        'level_text': 'stripPadding(appendPadding(p,bs)) = p decided by z3 for every plaintext content of every length 0..4*bs+1, bs in {8,16}, on the SSA of the real functions; counterexamples replayed natively.',
        'level_note': 'bounds: plaintext length 0..4*bs+1 case-split, contents symbolic; no stubs on this kernel. Outside: longer plaintexts; the cipher/key-transport layers (being added).',
        'harnesses': [
            {'name': 'Harness_C10_padding', 'pkg': 'xmlenc', 'replay': 'direct', 'must_reach': ['stripped'],
             'quick': {}, 'thorough': {}},
        ],
        'assumptions': [],
    },
}
