"""Per-property harness registry for ./check."""

# library packages whose functions are executed from their own SSA rather than stubbed
DEFAULT_EXTRA = ['github.com/beevik/etree', 'github.com/golang-jwt/jwt/v4', 'github.com/russellhaering/goxmldsig']

NOT_APPLICABLE = {
    'C07': 'decided by library code outside the reach of the encoder: etree character escaping, exclusive c14n, RSA/ECDSA signing and verification, AES/OAEP, and the encoding/xml tokenizer (DESIGN.md section 6)',
}

SP_ASSERTION_NOTE = ('struct-level: the real validateAssertion on an arbitrary unmarshalled Assertion (all optional elements nil-able, '
                     '0..K SubjectConfirmations and AudienceRestrictions, K=2 quick / 3 thorough), arbitrary strings, instants (ms resolution inside the '
                     'message, ns for the clock), tolerances in [0,2^62), 0..2 outstanding IDs, AllowIDPInitiated and the audience hook on/off. ')

FLOW_NOTE = "flow-level: the real ParseXMLResponse, parseResponse, validateRequestID, parseAssertion, validateSignature, getIDPSigningCerts, findChildren/findChild, elementToBytes, unmarshalElement and the etree/etreeutils namespace code executed from SSA on a materialised document (Response with arbitrary response-level fields or valid by construction, 0..2 assertions valid by construction or expired, each element unsigned / signed by the trusted key / signed by an untrusted key). goxmldsig Validate is a contract stub: nil only for a direct-child Signature made over that very element by a key whose certificate is among the context's roots. encoding/xml + etree serialisation are assumed to round-trip the structs. "

CHECKS = {
    'C01': {
        'level_text': 'path exploration + z3 decide that ParseXMLResponse returns only an assertion of the document that is covered by a signature of a trusted key (its own, or the Response\'s) and never when the Response carries a signature of an untrusted key; counterexamples replayed natively on real signed XML.',
        'level_note': FLOW_NOTE + 'Harness_C01_trust adds the fingerprint and pinned-certificate trust configurations and four KeyInfo layouts per signature (signer certificate, none, signer+other, other+signer; goxmldsig: the first KeyInfo certificate must be a root and is the verification key). Outside: XML-level wrapping that defeats goxmldsig itself, encrypted assertions on the SP side.',
        'harnesses': [
            {'name': 'Harness_C01_chardata', 'pkg': 'saml', 'replay': 'direct', 'must_reach': ['decoded'], 'opts': {'no_ascii_model': False}},
            {'name': 'Harness_C01_encrypted', 'pkg': 'saml', 'replay': 'direct', 'must_reach': ['accepted', 'rejected', 'accepted-by-inner-signature', 'accepted-by-response-signature'], 'validate_labels': ['accepted-by-inner-signature', 'accepted-by-response-signature', 'rejected'], 'label_prefix': 'C01', 'opts': {'K': 1}},
            {'name': 'Harness_C04_artifact', 'pkg': 'saml', 'replay': 'direct', 'must_reach': ['accepted', 'rejected', 'accepted-by-artifact-signature'], 'validate_labels': ['accepted-by-artifact-signature'], 'label_prefix': 'C01', 'opts': {'time_res': 1000000, 'K': 1}},
            {'name': 'Harness_C01_flow', 'pkg': 'saml', 'replay': 'direct', 'must_reach': ['accepted', 'rejected', 'accepted-by-response-signature', 'accepted-by-assertion-signature'],
             'opts': {'time_res': 1000000}, 'quick': {'K': 1, 'params': {'assertions.max': 2}}, 'thorough': {'K': 1, 'params': {'assertions.max': 3}}},
            {'name': 'Harness_C01_trust', 'pkg': 'saml', 'replay': 'direct', 'must_reach': ['accepted', 'rejected', 'accepted-by-fingerprint', 'accepted-by-pinned-certificate', 'accepted-with-two-signing-certificates'],
             'validate_labels': ['accepted', 'accepted-by-fingerprint', 'accepted-by-pinned-certificate'], 'opts': {'time_res': 1000000, 'K': 1}},
        ],
    },
    'C02': {
        'level_text': 'z3 decides, for all instants and tolerances at once, that acceptance implies every documented window and that strictly-inside implies acceptance, on the SSA of the real validateAssertion; counterexamples replayed natively.',
        'level_note': SP_ASSERTION_NOTE + FLOW_NOTE + 'Response-level IssueInstant and lexical time forms are covered by the flow harness where registered; time.Parse is library code (outside).',
        'harnesses': [
            {'name': 'Harness_C04_artifact', 'pkg': 'saml', 'replay': 'direct', 'must_reach': ['accepted', 'rejected'], 'validate_labels': ['accepted'], 'label_prefix': 'C02', 'opts': {'time_res': 1000000, 'params': {'artifact.layouts': 0}, 'K': 1}},
            {'name': 'Harness_C02_flow', 'pkg': 'saml', 'replay': 'direct', 'must_reach': ['accepted', 'rejected'],
             'opts': {'time_res': 1000000}, 'quick': {'K': 1}, 'thorough': {'K': 1}},
            {'name': 'Harness_C02_assertion', 'pkg': 'saml', 'replay': 'direct', 'must_reach': ['accepted', 'rejected', 'accepted-two-confirmations'],
             'opts': {'time_res': 1000000}, 'quick': {'K': 2}, 'thorough': {'K': 3}},
        ],
    },
    'C03': {
        'level_text': 'z3 decides that acceptance implies issuer = IdP entity ID, every Recipient = ACS URL and the audience rule (entity-ID fallback, hook) for all strings at once; replayed natively.',
        'level_note': SP_ASSERTION_NOTE + FLOW_NOTE,
        'harnesses': [
            {'name': 'Harness_C04_artifact', 'pkg': 'saml', 'replay': 'direct', 'must_reach': ['accepted', 'rejected'], 'validate_labels': ['accepted'], 'label_prefix': 'C03', 'opts': {'time_res': 1000000, 'params': {'artifact.layouts': 0}, 'K': 1}},
            {'name': 'Harness_C03_destination', 'pkg': 'saml', 'replay': 'direct', 'must_reach': ['accepted', 'rejected'], 'opts': {'time_res': 1000000, 'K': 1}},
            {'name': 'Harness_C03_flow', 'pkg': 'saml', 'replay': 'direct', 'must_reach': ['accepted', 'rejected', 'accepted-signed-response'],
             'opts': {'time_res': 1000000, 'params': {'status.nested': 1}}, 'quick': {'K': 1}, 'thorough': {'K': 1}},
            {'name': 'Harness_C03_assertion', 'pkg': 'saml', 'replay': 'direct', 'must_reach': ['accepted', 'rejected', 'accepted-with-audience'],
             'opts': {'time_res': 1000000}, 'quick': {'K': 2}, 'thorough': {'K': 3}},
        ],
    },
    'C04': {
        'level_text': 'z3 decides that, without IdP-initiated login, acceptance implies every confirmation InResponseTo is one of the outstanding IDs (and that some ID is outstanding); replayed natively.',
        'level_note': SP_ASSERTION_NOTE + FLOW_NOTE,
        'harnesses': [
            {'name': 'Harness_C09_artifact_http', 'pkg': 'saml', 'replay': 'direct', 'must_reach': ['accepted', 'rejected'], 'validate_labels': ['accepted', 'rejected'], 'label_prefix': 'C04', 'opts': {'K': 1}},
            {'name': 'Harness_C04_artifact', 'pkg': 'saml', 'replay': 'direct', 'must_reach': ['accepted', 'rejected', 'accepted-by-artifact-signature'], 'validate_labels': ['accepted-by-artifact-signature'], 'label_prefix': 'C04', 'opts': {'time_res': 1000000, 'K': 1}},
            {'name': 'Harness_C04_flow', 'pkg': 'saml', 'replay': 'direct', 'must_reach': ['accepted', 'rejected', 'accepted-with-hook'],
             'opts': {'time_res': 1000000}, 'quick': {'K': 1}, 'thorough': {'K': 1}},
            {'name': 'Harness_C04_assertion', 'pkg': 'saml', 'replay': 'direct', 'must_reach': ['accepted', 'rejected', 'accepted-with-confirmation'],
             'opts': {'time_res': 1000000}, 'quick': {'K': 2}, 'thorough': {'K': 3}},
        ],
    },
    'C09': {
        'level_text': 'every path of the encoded message-consuming functions is explored with all optional elements nil-able; a path ending in a Go panic is a violation; replayed natively.',
        'level_note': SP_ASSERTION_NOTE + FLOW_NOTE,
        'harnesses': [
            {'name': 'Harness_C09_metadata', 'pkg': 'samlsp', 'replay': 'direct', 'must_reach': ['parsed', 'fetched', 'descriptor'], 'validate_reach': False, 'opts': {'panic_is_violation': True, 'K': 2}},
            {'name': 'Harness_C09_inflate', 'pkg': 'saml', 'replay': 'direct', 'must_reach': ['read'], 'opts': {'panic_is_violation': True}, 'validate_reach': False},
            # decryption of peer-chosen cipher text is part of consuming a response: the C11 harnesses over the real xmlenc code, here for their panics only
            {'name': 'Harness_C11_padding', 'pkg': 'xmlenc', 'replay': 'direct', 'must_reach': ['returned', 'rejected', 'decrypted'], 'validate_reach': False, 'label_prefix': 'C09',
             'opts': {'panic_is_violation': True}, 'quick': {'params': {'blocks.max': 2}}, 'thorough': {'params': {'blocks.max': 4}}},
            {'name': 'Harness_C11_block', 'pkg': 'xmlenc', 'replay': 'direct', 'must_reach': ['returned', 'rejected', 'decrypted'], 'validate_reach': False, 'label_prefix': 'C09',
             'opts': {'panic_is_violation': True}, 'quick': {'params': {'lengths.all': 0}}, 'thorough': {'params': {'lengths.all': 1}}},
            {'name': 'Harness_C01_encrypted', 'pkg': 'saml', 'replay': 'direct', 'must_reach': ['accepted', 'rejected', 'accepted-by-inner-signature', 'accepted-by-response-signature'], 'validate_labels': ['accepted-by-inner-signature', 'accepted-by-response-signature', 'rejected'], 'label_prefix': 'C09', 'opts': {'K': 1, 'panic_is_violation': True}},
            {'name': 'Harness_C09_artifact_http', 'pkg': 'saml', 'replay': 'direct', 'must_reach': ['accepted', 'rejected'], 'validate_labels': ['accepted', 'rejected'], 'label_prefix': 'C09', 'opts': {'K': 1, 'panic_is_violation': True}},
            {'name': 'Harness_C04_artifact', 'pkg': 'saml', 'replay': 'direct', 'must_reach': ['accepted', 'rejected'], 'validate_labels': ['accepted'], 'label_prefix': 'C09', 'opts': {'time_res': 1000000, 'params': {'artifact.layouts': 0}, 'K': 1, 'panic_is_violation': True}},
            {'name': 'Harness_C09_flow', 'pkg': 'saml', 'replay': 'direct', 'must_reach': ['returned'],
             'opts': {'time_res': 1000000, 'panic_is_violation': True}, 'quick': {'K': 1}, 'thorough': {'K': 1}},
            {'name': 'Harness_C09_assertion', 'pkg': 'saml', 'replay': 'direct', 'must_reach': ['returned'],
             'opts': {'time_res': 1000000, 'panic_is_violation': True}, 'quick': {'K': 2}, 'thorough': {'K': 3}},
            {'name': 'Harness_C09_logout', 'pkg': 'saml', 'replay': 'direct', 'must_reach': ['returned'],
             'opts': {'time_res': 1000000, 'panic_is_violation': True, 'K': 1}},
            {'name': 'Harness_C09_flate', 'pkg': 'saml', 'replay': 'direct', 'must_reach': ['read', 'refused']},
            {'name': 'Harness_C09_idpvalidate', 'pkg': 'saml', 'replay': 'direct', 'must_reach': ['returned'],
             'opts': {'time_res': 1000000, 'panic_is_violation': True}, 'quick': {'K': 1}, 'thorough': {'K': 2}},
        ],
    },
    'C05': {
        'level_text': 'z3 decides, for all request fields, instants, tolerances and registry contents within the shape bound, that Validate succeeds only for fresh, version-2.0, correctly addressed requests from a registered issuer and that the selected endpoint is exactly the registered endpoint the documented priority picks; replayed natively.',
        'level_note': 'real IdpAuthnRequest.Validate, getACSEndpoint, IdentityProvider.Metadata executed from SSA; request = arbitrary AuthnRequest struct (Issuer nil-able) marshalled by encoding/xml (assumed to round-trip), registry = harness provider answering found/ErrNotExist/other, metadata with <=1 SPSSODescriptor x <=2 ACS endpoints (quick) / <=2 x <=2 (thorough), arbitrary Binding/Location/Index/IsDefault. Outside: request decoding (base64/flate), ServeSSO HTTP plumbing.',
        'harnesses': [
            {'name': 'Harness_C05_validate', 'pkg': 'saml', 'replay': 'direct', 'must_reach': ['validated', 'rejected', 'received-over-http', 'index-and-url-name-different-endpoints'],
             'opts': {'time_res': 1000000},
             'quick': {'K': 1, 'lens_by_tag': [['AssertionConsumerServices', [1, 0, 2]], ['SPSSODescriptors', [1, 0]]]},
             'thorough': {'K': 1, 'lens_by_tag': [['AssertionConsumerServices', [1, 0, 2, 3]], ['SPSSODescriptors', [1, 0]]]}},
        ],
    },
    'C15': {
        'level_text': 'z3 decides, for every int64 nanosecond duration at once, that UnmarshalText(MarshalText(d)) = d on the SSA of the real functions (integer arithmetic with explicit two\'s-complement wrap; the numerals are kept as tokens so the solver reasons about the integers, not digit strings); replayed natively. Claimed for the Duration half of the property only.',
        'level_note': 'real Duration.MarshalText and Duration.UnmarshalText executed from SSA; fmt %d / %09d, strings.TrimRight/Cut, strconv.Atoi/ParseFloat (correctly rounded) and the two duration regexps are exact token-level contracts keyed by their pattern text (a changed pattern has no contract: inconclusive). Outside (not claimed): RelaxedTime text <-> instant (time.Format/Parse are library loops), the metadata marshal/unmarshal fixed point (reflection-driven encoding/xml), acceptance of arbitrary xsd:duration texts.',
        'harnesses': [
            {'name': 'Harness_C15_roundtrip', 'pkg': 'saml', 'replay': 'direct', 'must_reach': ['roundtrip'], 'opts': {'dec_tokens': True, 'timeout_ms': 10000, 'concrete_fallback': 3000}, 'thorough': {'timeout_ms': 300000}, 'budget_s': {'quick': 900, 'thorough': 1500}},
            {'name': 'Harness_C15_digits', 'pkg': 'saml', 'replay': 'direct', 'must_reach': ['roundtrip'], 'opts': {'dec_tokens': 'digits', 'timeout_ms': 10000}, 'thorough': {'timeout_ms': 300000}, 'budget_s': {'quick': 900, 'thorough': 1500}},
            {'name': 'Harness_C15_minint', 'pkg': 'saml', 'replay': 'direct', 'must_reach': ['roundtrip'], 'opts': {'dec_tokens': True}},
        ],
    },
    'C16': {
        'level_text': 'path exploration + z3 decide, over seven token provenances and arbitrary claims, issuer/audience strings and clock, that the session codec yields a session only for a token under this SP key and algorithm with the session marker, matching issuer and audience and a validity period containing now; replayed natively with real signed JWTs.',
        'level_note': 'real JWTSessionCodec.Decode/New and golang-jwt ParseWithClaims (ValidMethods loop, key function, StandardClaims.Valid, VerifyAudience/VerifyIssuer) executed from SSA. Token serialisation and signature verification are contract stubs: a token is a string with a provenance (signing key, algorithm, claims); Verify succeeds only under the public half of the signing key with the same algorithm. Provenances: garbage, this key+alg, other key, alg none, HS256 over public bytes, RS384 with this key, tracking-token claims. Outside: RS256/ES256 themselves, JSON encoding of claims.',
        'harnesses': [
            {'name': 'Harness_C16_decode', 'pkg': 'samlsp', 'replay': 'direct', 'must_reach': ['session', 'no-session'], 'opts': {'K': 1}},
            {'name': 'Harness_C16_gate', 'pkg': 'samlsp', 'replay': 'direct', 'must_reach': ['served', 'handler-ran', 'handler-not-run'],
             'validate_labels': ['handler-ran', 'handler-not-run']},
            {'name': 'Harness_C16_new', 'pkg': 'samlsp', 'replay': 'direct', 'must_reach': ['minted']},
            {'name': 'Harness_C16_attribute', 'pkg': 'samlsp', 'replay': 'direct', 'must_reach': ['served', 'admitted'], 'replay_tries': 12},
        ],
    },
    'C17': {
        'level_text': 'one inductive ACS step from an arbitrary cookie jar (the middleware keeps no other state): path exploration + z3 decide that a session is set only when the jar holds the authentic, unexpired, properly named tracking cookie of the request the response answers, that the browser goes only to the tracked URL named by RelayState (then cleared) or the default, and that every other delivery is an error reply without session; tracking lifetime = MaxIssueDelay. Replayed natively through the real middleware with real JWT cookies and a real signed response.',
        'level_note': 'real samlsp.New wiring, Middleware.ServeACS, CreateSessionFromAssertion, CookieRequestTracker.GetTrackedRequests/GetTrackedRequest/StopTrackingRequest, JWTTrackedRequestCodec, CookieSessionProvider.CreateSession, JWTSessionCodec.New/Encode and golang-jwt ParseWithClaims executed from SSA. Jar: <=2 (quick) / <=3 (thorough) cookies, each an authentic tracking token (fresh or expired), an authentic session token or garbage, under its index name or an arbitrary name. (*ServiceProvider).ParseResponse is replaced by a summary - an assertion iff the (valid, trusted-signed, fresh) response answers one of the IDs handed in - which is exactly what C04 discharges on the real function. JWT serialisation/verification and net/http helpers (SetCookie, Redirect, Error, cookie parsing) are contract stubs. Interleavings of several flows follow from the step because nothing but the jar carries over.',
        'harnesses': [
            {'name': 'Harness_C17_acs', 'pkg': 'samlsp', 'replay': 'direct', 'must_reach': ['served', 'refused', 'session-established'],
             'validate_labels': ['refused', 'session-established'], 'opts': {'summaries': {'(*github.com/crewjam/saml.ServiceProvider).ParseResponse': 'parse-response-answers'}},
             'quick': {'params': {'jar.max': 2}}, 'thorough': {'params': {'jar.max': 3}}, 'budget_s': {'quick': 600, 'thorough': 1500}},
            {'name': 'Harness_C17_lifetime', 'pkg': 'samlsp', 'replay': 'direct', 'must_reach': ['wired']},
        ],
    },
    'C19': {
        'level_text': 'one-step obligations from arbitrary store contents with every Store call allowed to fail: path exploration + z3 decide that GetSession yields a session only for the stored user\'s current password or the cookie of a stored unexpired session, that responses are written only with a session and a registry hit, that the registry is kept in step with the stored services, and that exactly one reply is sent; replayed natively with real bcrypt.',
        'level_note': 'real Server.GetSession, sendLoginForm, HandleLogin, service/registry handlers and the IdP ServeSSO / ServeIDPInitiated path executed from SSA over a typed in-harness Store whose every call may return an I/O error. bcrypt is an uninterpreted Match(hash, password) with Match(Generate(p), q) iff p = q and no match for an absent or malformed hash; html/template Execute and encoding/json are contract stubs; net/http helpers as in C17. Outside: multi-request histories beyond what the one-step invariants imply, JSON encoding, bcrypt itself.',
        'harnesses': [
            {'name': 'Harness_C19_session', 'pkg': 'samlidp', 'replay': 'direct', 'must_reach': ['returned', 'no-session', 'session-by-password', 'session-by-cookie'],
             'validate_labels': ['session-by-password', 'session-by-cookie', 'no-session'], 'quick': {'params': {'store.faults': 1}}, 'thorough': {'params': {'store.faults': 1}}},
            {'name': 'Harness_C19_sso', 'pkg': 'samlidp', 'replay': 'direct', 'must_reach': ['served', 'response-emitted', 'no-response'],
             'validate_labels': ['response-emitted', 'no-response'], 'opts': {'no_sign_err': True}, 'quick': {'params': {'store.faults': 1}}, 'thorough': {'params': {'store.faults': 1}}},
            {'name': 'Harness_C19_shortcut', 'pkg': 'samlidp', 'replay': 'direct', 'must_reach': ['served', 'response-emitted', 'no-response'],
             'validate_labels': ['response-emitted', 'no-response'], 'opts': {'no_sign_err': True}, 'quick': {'params': {'store.faults': 1}}, 'thorough': {'params': {'store.faults': 1}}},
            {'name': 'Harness_C19_registry', 'pkg': 'samlidp', 'replay': 'direct', 'must_reach': ['put', 'delete', 'restarted'],
             'validate_labels': ['restarted'], 'quick': {'params': {'store.faults': 1}}, 'thorough': {'params': {'store.faults': 1}}},
        ],
    },
    'C20': {
        'level_text': 'two stages: symbolic execution of every MemoryStore method and the Server handlers yields, per path, its lock/unlock events and its accesses to the shared maps; a z3 bounded interleaving model then decides, over a symbolic schedule of 2 threads each running any extracted trace (3 threads: 788 of 2024 trace combinations decided in 25 minutes, none violated; not registered because it does not finish), that no reachable state is a deadlock (Go RWMutex semantics with writer preference) and that no two threads are ever about to make conflicting accesses to the same object. A sequential harness decides that each store method meets the key-value map specification.',
        'level_note': 'traces come from the real MemoryStore.Get/Put/Delete/List, Server.GetServiceProvider, HandlePutService, HandleDeleteService, HandleIDPInitiated, HandleLogin, HandlePutUser, HandleListServices over the real MemoryStore (sync.Mutex/RWMutex calls and map operations are recorded, not executed concurrently). The schedule is a solver variable; nothing is enumerated except which traces run together. Counterexamples are schedules of the real code\'s events (symbolic replay: Go offers no way to force a schedule natively; the two findings on the pinned tree were confirmed with hand-written native demonstrations). Outside: the Go memory model below conflicting unsynchronised accesses, more than 3 threads, handlers not listed.',
        'harnesses': [
            {'name': 'Harness_C20_ops', 'pkg': 'samlidp', 'replay': 'symbolic', 'mode': 'interleave', 'must_reach': ['op-done'],
             'opts': {'trace_shared': True, 'no_sign_err': True, 'K': 1}, 'threads': {'quick': 2, 'thorough': 2}, 'budget_s': {'quick': 600, 'thorough': 1500}},
            {'name': 'Harness_C20_seq', 'pkg': 'samlidp', 'replay': 'direct', 'must_reach': ['sequential']},
            {'name': 'Harness_C20_linearizable', 'pkg': 'samlidp', 'replay': 'stress', 'must_reach': ['quiescent'], 'validate_reach': False,
             'quick': {'params': {'lin.threads': 2, 'lin.ops.0': 2, 'lin.ops.1': 1, 'lin.past': 16}},
             'thorough': {'params': {'lin.threads': 3, 'lin.ops.0': 2, 'lin.ops.1': 1, 'lin.ops.2': 1, 'lin.past': 24}}, 'budget_s': {'quick': 600, 'thorough': 1500}, 'max_paths': 1200000},
        ],
    },
    'C18': {
        'level_text': 'path exploration + z3 decide that both logout entry points report valid only for a rooted document whose root carries a trusted signature and whose Destination, Issuer, Status and freshness are right, and that such a response is accepted; counterexamples replayed natively on real signed XML.',
        'level_note': 'real ValidateLogoutResponseForm / Redirect, validateLogoutResponse, validateSignature and the helpers of the response flow executed from SSA on a materialised LogoutResponse (arbitrary fields, Issuer nil-able, unsigned / trusted / untrusted signature, or no root element). The library reads time.Now() here: the harness clock and the library clock are assumed to be within one second of each other. base64/flate are contract stubs (inverse of the encoder used by the harness). goxmldsig Validate as in C01.',
        'harnesses': [
            # the library reads the wall clock itself: only witnesses with a minute of margin are replayed for translator validation
            {'name': 'Harness_C18_form', 'pkg': 'saml', 'replay': 'direct', 'must_reach': ['valid', 'rejected', 'valid-with-margin'],
             'validate_labels': ['valid-with-margin', 'rejected'], 'opts': {'time_res': 1000000, 'K': 1}},
            {'name': 'Harness_C18_redirect', 'pkg': 'saml', 'replay': 'direct', 'must_reach': ['valid', 'rejected', 'valid-with-margin'],
             'validate_labels': ['valid-with-margin', 'rejected'], 'opts': {'time_res': 1000000, 'K': 1}},
        ],
    },
    'C11': {
        'level_text': 'every path of Decrypt over arbitrary EncryptedData/EncryptedKey trees, keys of every admitted Go type and every cipher-value length class is explored with the crypto panic preconditions active; a path ending in a panic is a violation; stripPadding is decided against its specification for every buffer content; replayed natively with the real crypto.',
        'level_note': 'real Decrypt, CBC/GCM/RSA.Decrypt, getCiphertext, validateRSAKeyIfPresent, stripPadding and the etree path code executed from SSA; crypto primitives are uninterpreted with their documented panic preconditions (IV length = block size, input a whole number of blocks, nonce length 12), length laws and the inverse law. Trees: every part optional, algorithm known/unknown/absent, nested EncryptedKey to depth 1 (depth 2 does not finish within the thorough budget: about 55 000 paths in 25 minutes, all discharged, exploration incomplete), repeated keys, cipher values of 19 boundary lengths (quick) / every length 0..65 (thorough) or not base64, keys []byte of 0/8/16/24/32/33 bytes, two RSA keys, nil, string. Outside: GCM tamper detection (a property of the AEAD primitive).',
        'harnesses': [
            {'name': 'Harness_C01_encrypted', 'pkg': 'saml', 'replay': 'direct', 'must_reach': ['accepted', 'rejected'], 'validate_reach': False, 'label_prefix': 'C11', 'opts': {'K': 1, 'panic_is_violation': True}},
            {'name': 'Harness_C11_certmatch', 'pkg': 'xmlenc', 'replay': 'direct', 'must_reach': ['decrypted', 'rejected'], 'opts': {'params': {'rand.mayfail': 0}}},
            {'name': 'Harness_C11_strip', 'pkg': 'xmlenc', 'replay': 'direct', 'must_reach': ['returned', 'stripped'],
             'quick': {'params': {'strip.maxlen': 18}}, 'thorough': {'params': {'strip.maxlen': 34}}},
            {'name': 'Harness_C11_padding', 'pkg': 'xmlenc', 'replay': 'direct', 'must_reach': ['returned', 'rejected', 'decrypted'], 'validate_labels': ['rejected', 'decrypted'],
             'opts': {'panic_is_violation': True}, 'quick': {'params': {'blocks.max': 2}}, 'thorough': {'params': {'blocks.max': 4}}},
            {'name': 'Harness_C11_block', 'pkg': 'xmlenc', 'replay': 'direct', 'must_reach': ['returned', 'rejected', 'decrypted'], 'validate_labels': ['rejected'],
             'opts': {'panic_is_violation': True}, 'quick': {'params': {'lengths.all': 0}}, 'thorough': {'params': {'lengths.all': 1}}},
            {'name': 'Harness_C11_rsa', 'pkg': 'xmlenc', 'replay': 'direct', 'must_reach': ['returned', 'rejected'], 'validate_labels': ['rejected'],
             'opts': {'panic_is_violation': True}},
            {'name': 'Harness_C11_shape', 'pkg': 'xmlenc', 'replay': 'direct', 'must_reach': ['returned', 'rejected'], 'validate_labels': ['rejected'],
             'opts': {'panic_is_violation': True}, 'quick': {'params': {'depth': 1}}, 'thorough': {'params': {'depth': 1}}, 'budget_s': {'quick': 600, 'thorough': 1500}},
        ],
    },
    'C12': {
        'level_text': 'z3 decides, for all configuration strings at once, that the request struct and its Element() form carry the configured issuer, destination, ACS URL, binding, name-ID policy and an ID that is the hex form of >=16 bytes drawn from RandReader in this call.',
        'level_note': 'real MakeAuthenticationRequest, nameIDFormat, randomBytes, AuthnRequest.Element and the etree builder code executed from SSA; RandReader is a harness reader returning solver-chosen bytes. Outside: deflate/base64/XML serialisation (library loops).',
        'harnesses': [
            {'name': 'Harness_C12_authnrequest', 'pkg': 'saml', 'replay': 'direct', 'must_reach': ['made'], 'opts': {'params': {'rand.short': 1}}},
            {'name': 'Harness_C12_redirect', 'pkg': 'saml', 'replay': 'direct', 'must_reach': ['redirect', 'signed-redirect'], 'validate_labels': ['redirect', 'signed-redirect'],
             'label_prefix': 'C12/', 'quick': {'params': {'relay.maxlen': 2, 'rand.mayfail': 0}}, 'thorough': {'params': {'relay.maxlen': 3, 'rand.mayfail': 0}}},
            {'name': 'Harness_C12_logout_redirect', 'pkg': 'saml', 'replay': 'direct', 'must_reach': ['logout-request', 'logout-response'],
             'quick': {'params': {'relay.maxlen': 2, 'rand.mayfail': 0}}, 'thorough': {'params': {'relay.maxlen': 3, 'rand.mayfail': 0}}},
        ],
    },
    'C13': {
        'level_text': 'z3 decides, for every method string at once and each key kind, that GetSigningContext succeeds only for a supported method matching the key type and configures exactly that method; that every POST/logout/artifact message made with signing configured carries an enveloped signature of the SP key over its own element or is refused; that the redirect signature covers exactly the SAMLRequest/RelayState/SigAlg octets; and that metadata advertises the signing certificate iff signing is configured. Replayed natively with real RSA/ECDSA/Ed25519 keys.',
        'level_note': 'real GetSigningContext plus goxmldsig NewSigningContext/SetSignatureMethod/GetSignatureMethodIdentifier executed from SSA; keys are opaque objects of dynamic type *rsa.PrivateKey / *ecdsa.PrivateKey / ed25519.PrivateKey. Outside: that signatures verify (cryptography).',
        'harnesses': [
            {'name': 'Harness_C13_context', 'pkg': 'saml', 'replay': 'direct', 'must_reach': ['context', 'refused']},
            {'name': 'Harness_C13_attached', 'pkg': 'saml', 'replay': 'direct', 'must_reach': ['made', 'refused', 'made-with-signing-configured'],
             'validate_labels': ['made', 'made-with-signing-configured'], 'opts': {'no_sign_err': True}, 'quick': {'params': {'rand.mayfail': 0}}, 'thorough': {'params': {'rand.mayfail': 0}}},
            {'name': 'Harness_C13_wire', 'pkg': 'saml', 'replay': 'direct', 'must_reach': ['emitted', 'recovered'], 'opts': {'params': {'rand.mayfail': 0}, 'no_sign_err': True}},
            {'name': 'Harness_C13_metadata', 'pkg': 'saml', 'replay': 'direct', 'must_reach': ['metadata']},
            {'name': 'Harness_C12_redirect', 'pkg': 'saml', 'replay': 'direct', 'must_reach': ['signed-redirect'], 'validate_labels': ['signed-redirect'],
             'label_prefix': 'C13/', 'quick': {'params': {'relay.maxlen': 1, 'rand.mayfail': 0}}, 'thorough': {'params': {'relay.maxlen': 2, 'rand.mayfail': 0}}},
        ],
    },
    'C14': {
        'level_text': 'z3 decides, for all binding and location strings in the stated URL classes, that a successfully unmarshalled Endpoint / IndexedEndpoint carries http(s) Location and ResponseLocation for the standard bindings and blank ones otherwise; replayed natively through encoding/xml.',
        'level_note': 'real Endpoint.UnmarshalXML, IndexedEndpoint.UnmarshalXML, checkEndpointLocation executed from SSA; encoding/xml decoding modelled as filling the alias struct with the marshalled value; url.Parse abstract (scheme exact on texts starting http://, https://, javascript:, data: or containing no colon - other texts are outside the bound). Harness_C14_forms: the four SAML auto-submit forms (SP request, logout request, logout response, IdP response) must come out of an html/template Execute whose data has only plain string fields (the escaping itself is html/template, trusted) and must bind action / RelayState / message field to the intended values (read from the template text); natively the same oracle checks that a markup-bearing relay state and destination do not appear raw and round-trip through the form.',
        'harnesses': [
            # 'rejected' can be reached through the abstract url.Parse failing, which the native parser need not do: not a validation label
            {'name': 'Harness_C14_endpoint', 'pkg': 'saml', 'replay': 'direct', 'must_reach': ['accepted', 'rejected', 'accepted-known-binding'],
             'validate_labels': ['accepted', 'accepted-known-binding']},
            {'name': 'Harness_C14_indexed', 'pkg': 'saml', 'replay': 'direct', 'must_reach': ['accepted', 'rejected'], 'validate_labels': ['accepted']},
            {'name': 'Harness_C14_loginform', 'pkg': 'samlidp', 'replay': 'direct', 'must_reach': ['login-form']},
            {'name': 'Harness_C14_forms', 'pkg': 'saml', 'replay': 'direct', 'must_reach': ['authn-request-form', 'logout-request-form', 'logout-response-form', 'idp-response-form'],
             'opts': {'no_sign_err': True}, 'quick': {'params': {'rand.mayfail': 0}}, 'thorough': {'params': {'rand.mayfail': 0}}},
        ],
    },
    'C06': {
        'level_text': 'z3 decides, for all request, registry, endpoint, session and clock values at once, that the assertion and the emitted Response element/form are scoped to the selected registered endpoint, the registered SP, the request ID and the issuance moment, carry only session strings, and that both elements carry an enveloped signature made by the IdP key (private key or crypto.Signer).',
        'level_note': 'real DefaultAssertionMaker.MakeAssertion, MakeAssertionEl, MakeResponse, PostBinding, signingContext, the Element() builders and the etree code executed from SSA. Request, registry entry and selected endpoint are independent symbolic values. goxmldsig SignEnveloped is a contract stub (a Signature child recording signer and signed element); that the signature bytes verify is cryptography (outside), replayed natively with real keys. Attribute harness: <=1 (quick) / <=2 (thorough) requested attributes from a fixed name list (each with or without a value listed in the metadata), <=1 group and custom attribute, five of the optional user fields empty (with all of them arbitrary the thorough run does not finish: 141 000 paths in 30 minutes, all discharged).',
        'harnesses': [
            {'name': 'Harness_C06_assertion', 'pkg': 'saml', 'replay': 'direct', 'must_reach': ['made']},
            {'name': 'Harness_C06_attributes', 'pkg': 'saml', 'replay': 'direct', 'must_reach': ['made', 'attribute-value'], 'opts': {'time_res': 1000000},
             'quick': {'K': 1, 'params': {'session.few': 1, 'requested.max': 1, 'rand.mayfail': 0}}, 'thorough': {'K': 1, 'params': {'session.few': 1, 'requested.max': 2, 'rand.mayfail': 0}},
             'budget_s': {'quick': 600, 'thorough': 1800}},
            {'name': 'Harness_C08_nodowngrade', 'pkg': 'saml', 'replay': 'direct', 'must_reach': ['made', 'encrypted'], 'validate_reach': False, 'label_prefix': 'C06',
             'opts': {'no_sign_err': True, 'loop_limit': 20000, 'params': {'rand.mayfail': 0, 'sp.wantsigned': 1, 'keylayout.fixed': 1}}},
            {'name': 'Harness_C06_response', 'pkg': 'saml', 'replay': 'direct', 'must_reach': ['emitted', 'refused'], 'validate_labels': ['emitted'],
             'quick': {'params': {'rand.mayfail': 0}, 'no_sign_err': True}, 'thorough': {'params': {'rand.mayfail': 1}}},
        ],
    },
    'C08': {
        'level_text': 'z3/path enumeration decides, for every layout of <=2 key descriptors (3 descriptors exceed 400 000 paths and do not finish within the thorough budget) x <=2 certificates (Use encryption/signing/omitted/other, arbitrary/empty/real certificate texts), that the encryption-certificate selector reports "no key" exactly when none is advertised, never panics and never turns a bad certificate into "no key"; replayed natively with real certificates.',
        'level_note': 'real getSPEncryptionCert executed from SSA; base64 decode and x509.ParseCertificate are contract stubs (fail or opaque certificate; exact on the two real test certificates); at most one descriptor with use="encryption" (several are ambiguous: outside). Harness_C08_nodowngrade executes the real MakeAssertionEl, xmlenc RSA.Encrypt / CBC.Encrypt and Decrypt with uninterpreted crypto (inverse law under equal key/IV/hash): six metadata key layouts (none, encryption certificate, undecodable certificate, signing-only, use omitted, encryption certificate with one of three EncryptionMethod lists). Outside: confidentiality of AES/RSA themselves; that no user string appears elsewhere in the form is argued structurally.',
        'harnesses': [
            {'name': 'Harness_C01_encrypted', 'pkg': 'saml', 'replay': 'direct', 'must_reach': ['accepted', 'rejected', 'accepted-by-inner-signature', 'accepted-by-response-signature'], 'validate_labels': ['accepted-by-inner-signature', 'accepted-by-response-signature', 'rejected'], 'label_prefix': 'C08', 'opts': {'K': 1}},
            {'name': 'Harness_C08_fresh', 'pkg': 'xmlenc', 'replay': 'direct', 'must_reach': ['encrypted'], 'opts': {'loop_limit': 20000, 'params': {'rand.mayfail': 0, 'rand.short': 1, 'rand.short.maxcall': 4}}},
            {'name': 'Harness_C08_certselect', 'pkg': 'saml', 'replay': 'direct', 'must_reach': ['returned', 'advertised', 'nothing-advertised', 'real-cert-selected'],
             'opts': {'panic_is_violation': True}, 'validate_labels': ['nothing-advertised', 'real-cert-selected'],
             'quick': {'params': {'kd.max': 2}}, 'thorough': {'params': {'kd.max': 2}}, 'budget_s': {'quick': 600, 'thorough': 1500}},
            {'name': 'Harness_C08_nodowngrade', 'pkg': 'saml', 'replay': 'direct', 'must_reach': ['made', 'refused', 'plaintext', 'encrypted'],
             'validate_labels': ['plaintext', 'encrypted'], 'opts': {'no_sign_err': True, 'loop_limit': 20000}, 'quick': {'params': {'rand.mayfail': 0}}, 'thorough': {'params': {'rand.mayfail': 1}}},
        ],
    },
    'C10': {
        'level_text': 'stripPadding(appendPadding(p,bs)) = p decided by z3 for every plaintext content of every length 0..4*bs+1, bs in {8,16}, on the SSA of the real functions; counterexamples replayed natively.',
        'level_note': 'bounds: plaintext length 0..4*bs+1 case-split, contents symbolic; no stubs on this kernel. Outside: longer plaintexts; interoperability with other implementations.',
        'harnesses': [
            {'name': 'Harness_C10_padding', 'pkg': 'xmlenc', 'replay': 'direct', 'must_reach': ['stripped'],
             'quick': {}, 'thorough': {}},
            {'name': 'Harness_C10_direct', 'pkg': 'xmlenc', 'replay': 'direct', 'must_reach': ['encrypted', 'decrypted'], 'validate_labels': ['decrypted'],
             'opts': {'panic_is_violation': True}, 'quick': {'params': {'lengths.all': 0}}, 'thorough': {'params': {'lengths.all': 1}}},
            {'name': 'Harness_C10_transport', 'pkg': 'xmlenc', 'replay': 'direct', 'must_reach': ['encrypted', 'decrypted'], 'validate_labels': ['decrypted'],
             'opts': {'panic_is_violation': True}, 'quick': {'params': {'lengths.all': 0}}, 'thorough': {'params': {'lengths.all': 1}}},
        ],
        'assumptions': [],
    },
}


# ---- what was added after the first version of the level notes (appended so that the notes stay one per check)
_ARTIFACT = (' Artifact path: Harness_C04_artifact runs the real ParseXMLArtifactResponse / parseArtifactResponse on a materialised SOAP envelope '
             '(ArtifactResponse with arbitrary fields and its own unsigned / trusted / untrusted signature around a Response document) and '
             'Harness_C09_artifact_http runs ParseResponse with a SAMLart parameter against an HTTP client whose reply the harness fixes '
             '(transport error, any status code, empty / rootless / non-XML / well-formed body); net/http client calls are contract stubs.')
_MORE_NOTES = {
    'C01': (' Harness_C01_encrypted: the assertion inside an EncryptedAssertion for the SP certificate or another one (xmlenc.Decrypt is a contract: the '
            "recipient's private key returns the element, any other key an error; the xmlenc code itself is C10/C11). Harness_C01_chardata: AttributeValue / NameID / "
            'Issuer / Audience decoded from text that comments split into pieces - a type with its own UnmarshalXML is executed token by token against a decoder model '
            '(CharData / Comment / EndElement), a plain struct follows the documented ",chardata" rule.' + _ARTIFACT),
    'C02': _ARTIFACT,
    'C03': ' The flow harness keeps one level of nested status codes.' + _ARTIFACT,
    'C04': _ARTIFACT,
    'C09': ' Harness_C01_encrypted (decryption path) is included. The xmlenc padding / block harnesses of C11 (real CBC and GCM decryption of peer-chosen cipher text, every registered block cipher) are also run here, for their panics only.' + _ARTIFACT,
    'C05': ' The request is validated both as a bare value and as received over HTTP (HTTPRequest set, Host header one of three names, concrete SSO URL).',
    'C08': ' SP side: Harness_C01_encrypted (see C01) decides that a decrypted assertion gets exactly the signature checks of a plaintext one and that ciphertext for another key is rejected.',
    'C10': ' Harness_C10_direct / _transport: every block cipher and every RSA key transport (digest variants) round-trips through the real Encrypt/Decrypt under symbolic crypto (inverse law keyed by key, hash and label).',
    'C11': " Harness_C11_certmatch: a key wrapped by the library to the recipient's public key whose embedded certificate is replaced (own / other RSA / ECDSA / Ed25519 / not a certificate) decrypts only with the recipient's own.",
    'C12': (' Harness_C12_redirect / _logout_redirect: query strings are ropes (text, raw symbolic bytes, QueryEscape/PathEscape of a byte or an opaque text, position-wise ReplaceAll); '
            'the emitted RawQuery is parsed with url.ParseQuery and the relay state must come back byte for byte as one parameter. The random source may return a short first read (io.ReadFull is modelled as the loop it is).'),
    'C13': ' The redirect signature is verified over the octets from SAMLRequest= to &Signature= exactly as they stand in the URL; the metadata harness runs with an RSA and an ECDSA key.',
    'C14': ' Locations are drawn from eleven scheme prefixes (http, https, javascript, data, mixed-case JavaScript, vbscript, view-source, ftp, file, intent, none). Harness_C14_loginform: the same form obligations for the bundled IdP login form.',
    'C15': (' Harness_C15_digits decides the same obligation with numerals modelled digit by digit (case split on the digit count, one fresh digit 0..9 per position tied to the number by a linear equation); '
            'Trim*/Cut/Atoi/ParseInt/ParseFloat and any regexp that cannot tell digits apart work position by position, so the check does not depend on how the text is produced.'),
    'C17': ' The step also carries the frame condition (no cookie is set other than the session cookie and the tracking cookie RelayState names), which is what makes the induction over interleaved flows valid.',
    'C18': ' One level of nested status codes is kept.',
    'C20': (' Registered descriptors are traced as heap objects (every load/store through a pointer into them). Harness_C20_linearizable runs the real MemoryStore methods as threads of one path '
            '(engine/gosmt/conc.py: context switches where a thread is about to acquire a mutex, the next thread a decision of the path search) from four kinds of initial store (no map, empty, one entry, one entry after a sequential past of 1..16 / 1..24 other keys put and deleted again) and checks results and final contents '
            'against some linearization of the sequential map, stored values being arbitrary strings; violating schedules are also stress-replayed natively.'),
}
for _k, _v in _MORE_NOTES.items():
    CHECKS[_k]['level_note'] += _v
CHECKS['C20']['level_text'] += ' Linearizability of the store is decided on the data under every lock-granularity schedule of 2 threads x (2+1) operations (quick) / 3 threads x (2+1+1) (thorough), also after a sequential past of up to 16 / 24 deletions.'
CHECKS['C15']['level_text'] = CHECKS['C15']['level_text'].replace('the numerals are kept as tokens so the solver reasons about the integers, not digit strings', 'numerals kept as tokens of the integers in one harness and as digit runs in another')
CHECKS['C20']['technique'] = ('symbolic execution of the go/ssa form of the real store methods and handlers yields lock/access traces; z3 decides deadlock and race freedom over a '
                              'symbolic schedule of those traces (bounded interleaving model); linearizability by symbolic execution of the real methods as threads under every '
                              'lock-granularity schedule, each history checked by z3 against the sequential map; schedules reported, stress-replayed natively')
CHECKS['C15']['technique'] = ('bounded symbolic execution of the go/ssa form of Duration.MarshalText / UnmarshalText; the round-trip identity decided by z3 for every int64 value at once '
                              '(linear integer arithmetic over numeral tokens and over digit runs); sat models replayed against the native build')
CHECKS['C09']['technique'] = ('bounded symbolic execution of the go/ssa form of every encoded message-consuming entry point with all optional elements absent-able; z3 decides feasibility of every '
                              'path that ends in a Go panic (a feasible one is the violation) and the inflate bound as an inductive step and as a bounded black-box run; replayed natively')
