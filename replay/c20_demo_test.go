package samlidp

// Native demonstrations of the two C20 findings on the pinned tree (run with the overlay
// command in /verif/replay/README.md). They are not part of the checks; they confirm that the
// schedules the interleaving model reports are schedules of the real server.

import (
	"net/http"
	"net/http/httptest"
	"sync"
	"testing"
	"time"

	"github.com/crewjam/saml"
)

// blockingStore lets the test hold HandleIDPInitiated between its two read locks.
type blockingStore struct {
	MemoryStore
	gate    chan struct{}
	reached chan struct{}
	once    sync.Once
}

func (b *blockingStore) Get(key string, value interface{}) error {
	if len(key) > 10 && key[:10] == "/sessions/" {
		b.once.Do(func() { close(b.reached); <-b.gate })
	}
	return b.MemoryStore.Get(key, value)
}

func TestC20DemoNestedRLockDeadlock(t *testing.T) {
	st := &blockingStore{gate: make(chan struct{}), reached: make(chan struct{})}
	s := &Server{serviceProviders: map[string]*saml.EntityDescriptor{}, logger: demoLogger{}, Store: st}
	s.IDP = saml.IdentityProvider{Logger: demoLogger{}}
	s.IDP.SessionProvider = s
	s.IDP.ServiceProviderProvider = s
	_ = st.Put("/shortcuts/sc", &Shortcut{Name: "sc", ServiceProviderID: "sp"})
	_ = st.Put("/sessions/sid", &saml.Session{ID: "sid", ExpireTime: time.Now().Add(time.Hour)})
	saml.TimeNow = time.Now

	done := make(chan struct{})
	go func() { // thread A: holds the registry read lock, then asks for it again
		r := httptest.NewRequest("GET", "https://idp.example.com/login/sc", nil)
		r.SetPathValue("shortcut", "sc")
		r.AddCookie(&http.Cookie{Name: "session", Value: "sid"})
		s.HandleIDPInitiated(httptest.NewRecorder(), r)
		close(done)
	}()
	<-st.reached
	go func() { // thread B: a writer announces itself
		s.idpConfigMu.Lock()
		s.idpConfigMu.Unlock()
	}()
	time.Sleep(200 * time.Millisecond)
	close(st.gate)
	select {
	case <-done:
		t.Log("no deadlock: the request completed")
	case <-time.After(2 * time.Second):
		t.Fatal("DEADLOCK: HandleIDPInitiated re-acquires idpConfigMu.RLock behind a pending writer")
	}
}

type demoLogger struct{}

func (demoLogger) Printf(string, ...interface{}) {}
func (demoLogger) Print(...interface{})          {}
func (demoLogger) Println(...interface{})        {}
func (demoLogger) Fatal(...interface{})          {}
func (demoLogger) Fatalf(string, ...interface{}) {}
func (demoLogger) Fatalln(...interface{})        {}
func (demoLogger) Panic(...interface{})          {}
func (demoLogger) Panicf(string, ...interface{}) {}
func (demoLogger) Panicln(...interface{})        {}

// Under the race detector (go test -race) List || Put is reported as a data race.
func TestC20DemoListPutRace(t *testing.T) {
	ms := &MemoryStore{}
	_ = ms.Put("/users/a", &User{Name: "a"})
	var wg sync.WaitGroup
	wg.Add(2)
	go func() {
		defer wg.Done()
		for i := 0; i < 2000; i++ {
			_ = ms.Put("/users/b", &User{Name: "b"})
		}
	}()
	go func() {
		defer wg.Done()
		for i := 0; i < 2000; i++ {
			_, _ = ms.List("/users/")
		}
	}()
	wg.Wait()
}
