#!/opt/veriftools/pyvenv/bin/python3
"""Prints a per-harness summary table from /verif/evidence/*.json (markdown)."""
import json, glob, os
V = os.path.dirname(os.path.dirname(os.path.abspath(__file__)))
print('| property | harness | paths | obligations | discharged | queries | wall s | natively validated |')
print('|---|---|---|---|---|---|---|---|')
for f in sorted(glob.glob(os.path.join(V, 'evidence', 'C*.json'))):
    e = json.load(open(f))
    c = e['coverage']
    for h in c.get('harnesses', []):
        labs = [x for x in c['samples'] if x.get('harness') == h['name'] and 'obligation' in x]
        print('| %s | %s | %d | - | - | - | %.1f | %s |' % (e['property_id'], h['name'], h['paths'], h['wall_s'], ','.join(v['label'] for v in h.get('validated', []) if v['ok']) or '-'))
    print('| %s | (total) | %d | %d | %d | %d | %.1f | %d |' % (e['property_id'], c['states'], c['obligations'], c['discharged'], c['queries'], e['wall_s'], c['traces_validated_against_impl']))
