#!/bin/bash
# developer helper: regenerate /verif/work/dev/ssa.json with all harnesses
cd /verif && python3-vt - <<'PY'
import sys, os
sys.argv=['check']
sys.path.insert(0,'/verif')
import importlib.machinery, importlib.util
loader = importlib.machinery.SourceFileLoader('checkmod', '/verif/check')
spec = importlib.util.spec_from_loader('checkmod', loader)
m = importlib.util.module_from_spec(spec); loader.exec_module(m)
import checks
rc, err, out, dt = m.run_ssaexport('/verif/work/dev', checks.DEFAULT_EXTRA)
print(rc, err[-2000:], out, round(dt,1))
PY
