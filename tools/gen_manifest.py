#!/opt/veriftools/pyvenv/bin/python3
"""Regenerates /verif/MANIFEST.json from checks.py (single source of truth)."""
import json, os, sys
V = os.path.dirname(os.path.dirname(os.path.abspath(__file__)))
sys.path.insert(0, V)
import checks

props = [json.loads(l) for l in open(os.path.join(V, 'properties.jsonl'))]
ids = [p['id'] for p in props]
ENV = 'GOFLAGS=-mod=mod GOPROXY=off GOSUMDB=off GOTOOLCHAIN=local'
m = {
    'version': 1,
    'setup_cmd': 'cd /verif/engine/ssaexport && %s go build -o /verif/bin/ssaexport . && cd /verif && python3-vt -m compileall -q engine/gosmt checks.py >/dev/null' % ENV,
    'hooks': {
        'guard': 'verif',
        'enable': 'harness sources are injected as overlay files /repo/<pkg>/zz_verif_*.go (build tag verif) by ./check; nothing is written into /repo',
        'baseline_off_cmd': 'cd /repo && %s go test -vet=off -count=1 -timeout 25m ./...' % ENV,
        'source_commits': [],
        'add_only': True,
    },
    'engines': [{
        'name': 'gosmt', 'path': 'engine',
        'serves_properties': sorted(checks.CHECKS.keys()),
        'kind_free_text': 'bounded symbolic execution of go/ssa (ssaexport, x/tools v0.29.0) by a Python interpreter that emits z3 queries; counterexamples replayed natively with go test -overlay',
    }],
    'checks': [],
    'not_applicable': [],
    'notes': 'See DESIGN.md. Every claim is "holds for all inputs within the stated bounds, assuming the listed stub contracts"; nothing is claimed outside the bounds.',
}
for pid in ids:
    c = checks.CHECKS.get(pid)
    if c is None or c.get('disabled'):
        m['not_applicable'].append({'property_id': pid, 'reason': checks.NOT_APPLICABLE.get(pid, 'no sound solver-based check built for this property (see DESIGN.md)')})
        continue
    m['checks'].append({
        'property_id': pid,
        'quick_cmd': './check %s quick' % pid,
        'thorough_cmd': './check %s thorough' % pid,
        'evidence_file': '/verif/evidence/%s.json' % pid,
        'replay_cmd_template': './check %s --replay {path}' % pid,
        'engine': 'gosmt',
        'level_claimed': {'category': 'model_checking', 'text': c['level_text'], 'design_ref': c.get('design_ref', 'DESIGN.md section 5 / ' + pid)},
        'level_note': c['level_note'],
        'technique': c.get('technique', 'bounded symbolic execution of the go/ssa form of the real functions; each assertion decided by z3 (unsat = holds within bounds); sat models replayed against the native build'),
    })
json.dump(m, open(os.path.join(V, 'MANIFEST.json'), 'w'), indent=1)
print('MANIFEST.json: %d checks, %d not applicable' % (len(m['checks']), len(m['not_applicable'])))
