#!/opt/veriftools/pyvenv/bin/python3
"""seed_eval.py <seed-name> <worktree> <demo-pkg-dir> <property> [<check-ids>...]

Confirms a seeded change in its scratch worktree (suite green with the change, demo fails with it
and passes without it), stores it under /verif/seeded/<seed-name>/, applies it to /repo, runs the
given checks (quick tier), reverts /repo, and records everything in meta.json."""
import sys, os, subprocess, json, shutil, time
ENV = dict(os.environ, GOFLAGS='-mod=mod', GOPROXY='off', GOSUMDB='off', GOTOOLCHAIN='local')


def sh(cmd, cwd, timeout=1800):
    p = subprocess.run(cmd, shell=True, cwd=cwd, env=ENV, capture_output=True, text=True, timeout=timeout)
    return p.returncode, (p.stdout + p.stderr)


def main():
    name, wt, pkgdir, prop = sys.argv[1:5]
    checks = [prop] + [c for c in sys.argv[5:] if c != prop]
    seed = os.path.join(wt, '_seed')
    out = os.path.join('/verif/seeded', name)
    os.makedirs(out, exist_ok=True)
    for f in ('patch.diff', 'demo_test.go', 'notes.md'):
        shutil.copy(os.path.join(seed, f), os.path.join(out, f))
    meta = {'property': prop, 'name': name, 'ran': []}
    demo = os.path.join(wt, pkgdir, 'zz_seed_demo_test.go')
    sh('git checkout -- . && git clean -fdq -e _seed', wt)
    # demo on the unchanged tree
    shutil.copy(os.path.join(seed, 'demo_test.go'), demo)
    rc0, o0 = sh('go test -vet=off -count=1 -run "Seed|seed|Demo" ./%s' % pkgdir, wt)
    os.remove(demo)
    # apply, full suite, demo
    rc, o = sh('git apply _seed/patch.diff', wt)
    if rc != 0:
        print('patch does not apply', o)
        sys.exit(2)
    rc1, o1 = sh('go build ./... && go test -vet=off -count=1 ./...', wt)
    shutil.copy(os.path.join(seed, 'demo_test.go'), demo)
    rc2, o2 = sh('go test -vet=off -count=1 -run "Seed|seed|Demo" ./%s' % pkgdir, wt)
    os.remove(demo)
    sh('git checkout -- .', wt)
    meta['confirmed'] = {'demo_passes_without_change': rc0 == 0, 'suite_green_with_change': rc1 == 0, 'demo_fails_with_change': rc2 != 0}
    meta['ran'].append('go test -run Seed ./%s on the unchanged worktree: rc=%d' % (pkgdir, rc0))
    meta['ran'].append('go build ./... && go test -vet=off -count=1 ./... with the change: rc=%d' % rc1)
    meta['ran'].append('go test -run Seed ./%s with the change: rc=%d' % (pkgdir, rc2))
    print('confirmed:', meta['confirmed'])
    if not all(meta['confirmed'].values()):
        print(o0[-800:], o1[-800:], o2[-800:])
    # run the checks against the scratch worktree with the change applied (VERIF_REPO points the driver at it;
    # /repo itself is never modified)
    rc, o = sh('git apply %s' % os.path.join(out, 'patch.diff'), wt)
    if rc != 0:
        print('patch does not apply', o)
        sys.exit(2)
    ENV['VERIF_REPO'] = wt
    ENV['VERIF_SCRATCH'] = os.path.join(wt, '_scratch')   # keeps /verif/evidence and /verif/work of the clean tree untouched
    meta['checks'] = {}
    try:
        for c in checks:
            t0 = time.time()
            rc, o = sh('./check %s quick' % c, '/verif', timeout=3600)
            lines = [l for l in o.splitlines() if l.startswith(('VIOLATION', 'UNCONFIRMED', 'INCONCLUSIVE', 'VACUITY', 'TRANSLATOR', 'KNOWN', '  counterexample'))]
            meta['checks'][c] = {'exit': rc, 'wall_s': round(time.time() - t0, 1), 'caught': rc == 1 and any(l.startswith('VIOLATION') for l in lines), 'lines': [l[:400] for l in lines][:12]}
            print(c, 'exit', rc, 'caught' if meta['checks'][c]['caught'] else 'MISSED')
            for l in lines[:6]:
                print('   ', l[:300])
    finally:
        sh('git checkout -- .', wt)
        ENV.pop('VERIF_REPO', None)
        ENV.pop('VERIF_SCRATCH', None)
        shutil.rmtree(os.path.join(wt, '_scratch'), ignore_errors=True)
    meta['needs'] = open(os.path.join(out, 'notes.md')).read()[:1500]
    json.dump(meta, open(os.path.join(out, 'meta.json'), 'w'), indent=1)


if __name__ == '__main__':
    main()
