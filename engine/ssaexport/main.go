// ssaexport loads a Go module from disk (with optional overlay harness files),
// builds SSA and writes the bodies of the functions of the requested packages,
// the type tables and method sets as JSON for the gosmt interpreter.
package main

import (
	"encoding/json"
	"flag"
	"fmt"
	"go/constant"
	"go/token"
	"go/types"
	"os"
	"path/filepath"
	"sort"
	"strings"

	"golang.org/x/tools/go/packages"
	"golang.org/x/tools/go/ssa"
	"golang.org/x/tools/go/ssa/ssautil"
)

type Ref struct {
	K string      `json:"k"`           // r, c, g, f, b
	N string      `json:"n,omitempty"` // name
	T string      `json:"t,omitempty"` // type
	V interface{} `json:"v,omitempty"` // const value
}

type CallJ struct {
	Mode   string `json:"mode"` // static, builtin, closure, invoke
	Fn     *Ref   `json:"fn,omitempty"`
	Method string `json:"method,omitempty"`
	Recv   *Ref   `json:"recv,omitempty"`
	RecvT  string `json:"recvt,omitempty"`
	Args   []*Ref `json:"args"`
	Sig    string `json:"sig,omitempty"`
}

type Instr struct {
	Op      string  `json:"op"`
	R       string  `json:"r,omitempty"` // result register
	T       string  `json:"t,omitempty"` // result type
	O       string  `json:"o,omitempty"` // operator
	X       *Ref    `json:"x,omitempty"`
	Y       *Ref    `json:"y,omitempty"`
	Z       *Ref    `json:"z,omitempty"`
	W       *Ref    `json:"w,omitempty"`
	XT      string  `json:"xt,omitempty"`
	Field   int     `json:"field"`
	CommaOk bool    `json:"commaok,omitempty"`
	Heap    bool    `json:"heap,omitempty"`
	Call    *CallJ  `json:"call,omitempty"`
	Edges   []*Ref  `json:"edges,omitempty"`
	Results []*Ref  `json:"results,omitempty"`
	Binds   []*Ref  `json:"binds,omitempty"`
	Pos     string  `json:"pos,omitempty"`
	Comment string  `json:"comment,omitempty"`
	IsStr   bool    `json:"isstr,omitempty"`
	AT      string  `json:"at,omitempty"` // asserted type
	_       struct{} `json:"-"`
}

type Block struct {
	Index  int      `json:"i"`
	Instrs []*Instr `json:"instrs"`
	Succs  []int    `json:"succs"`
	Preds  []int    `json:"preds"`
}

type Param struct {
	N string `json:"n"`
	T string `json:"t"`
}

type Func struct {
	Name      string   `json:"name"`
	Pkg       string   `json:"pkg"`
	Synthetic string   `json:"synthetic,omitempty"`
	Params    []Param  `json:"params"`
	FreeVars  []Param  `json:"freevars"`
	Results   []string `json:"results"`
	Blocks    []*Block `json:"blocks,omitempty"`
	HasBody   bool     `json:"hasbody"`
	Recover   int      `json:"recover"`
	Pos       string   `json:"pos,omitempty"`
	NInstr    int      `json:"ninstr"`
	Variadic  bool     `json:"variadic,omitempty"`
}

type Field struct {
	N   string `json:"n"`
	T   string `json:"t"`
	Emb bool   `json:"emb,omitempty"`
	Tag string `json:"tag,omitempty"`
}

type TypeJ struct {
	Kind    string   `json:"kind"`
	Name    string   `json:"name,omitempty"`
	Pkg     string   `json:"pkg,omitempty"`
	Under   string   `json:"under,omitempty"`
	Elem    string   `json:"elem,omitempty"`
	Key     string   `json:"key,omitempty"`
	Len     int64    `json:"len,omitempty"`
	Fields  []Field  `json:"fields,omitempty"`
	Methods []string `json:"methods,omitempty"` // interface method ids
	Params  []string `json:"params,omitempty"`
	Results []string `json:"results,omitempty"`
	Elems   []string `json:"elems,omitempty"`
	Basic   string   `json:"basic,omitempty"`
}

type Out struct {
	Funcs      map[string]*Func             `json:"funcs"`
	Types      map[string]*TypeJ            `json:"types"`
	Globals    map[string]string            `json:"globals"` // name -> elem type
	MethodSets map[string]map[string]string `json:"methodsets"`
	Implements map[string][]string          `json:"implements"` // iface -> list of types
	Inits      []string                     `json:"inits"`
	Errors     []string                     `json:"errors"`
	Harnesses  []string                     `json:"harnesses"`
}

var (
	out      = &Out{Funcs: map[string]*Func{}, Types: map[string]*TypeJ{}, Globals: map[string]string{}, MethodSets: map[string]map[string]string{}, Implements: map[string][]string{}}
	prog     *ssa.Program
	fnNames  = map[*ssa.Function]string{}
	nameUsed = map[string]*ssa.Function{}
	typeSeen = map[string]types.Type{}
	wanted   = map[string]bool{}
	wantPref []string
	queue    []*ssa.Function
	queued   = map[*ssa.Function]bool{}
	msTypes  = map[string]types.Type{}
)

func tstr(t types.Type) string {
	if t == nil {
		return ""
	}
	t = types.Unalias(t)
	s := types.TypeString(t, nil)
	if _, ok := typeSeen[s]; !ok {
		typeSeen[s] = t
		addType(s, t)
	}
	return s
}

func addType(s string, t types.Type) {
	tj := &TypeJ{}
	out.Types[s] = tj
	switch tt := t.(type) {
	case *types.Basic:
		tj.Kind = "basic"
		tj.Basic = tt.Name()
	case *types.Named:
		tj.Kind = "named"
		tj.Name = tt.Obj().Name()
		if tt.Obj().Pkg() != nil {
			tj.Pkg = tt.Obj().Pkg().Path()
		}
		tj.Under = tstr(tt.Underlying())
	case *types.Pointer:
		tj.Kind = "ptr"
		tj.Elem = tstr(tt.Elem())
	case *types.Slice:
		tj.Kind = "slice"
		tj.Elem = tstr(tt.Elem())
	case *types.Array:
		tj.Kind = "array"
		tj.Elem = tstr(tt.Elem())
		tj.Len = tt.Len()
	case *types.Map:
		tj.Kind = "map"
		tj.Key = tstr(tt.Key())
		tj.Elem = tstr(tt.Elem())
	case *types.Chan:
		tj.Kind = "chan"
		tj.Elem = tstr(tt.Elem())
	case *types.Struct:
		tj.Kind = "struct"
		for i := 0; i < tt.NumFields(); i++ {
			f := tt.Field(i)
			tj.Fields = append(tj.Fields, Field{N: f.Name(), T: tstr(f.Type()), Emb: f.Embedded(), Tag: tt.Tag(i)})
		}
	case *types.Interface:
		tj.Kind = "iface"
		for i := 0; i < tt.NumMethods(); i++ {
			tj.Methods = append(tj.Methods, tt.Method(i).Id())
		}
	case *types.Signature:
		tj.Kind = "func"
		for i := 0; i < tt.Params().Len(); i++ {
			tj.Params = append(tj.Params, tstr(tt.Params().At(i).Type()))
		}
		for i := 0; i < tt.Results().Len(); i++ {
			tj.Results = append(tj.Results, tstr(tt.Results().At(i).Type()))
		}
	case *types.Tuple:
		tj.Kind = "tuple"
		for i := 0; i < tt.Len(); i++ {
			tj.Elems = append(tj.Elems, tstr(tt.At(i).Type()))
		}
	case *types.TypeParam:
		tj.Kind = "typeparam"
	default:
		tj.Kind = "unknown"
	}
}

func fname(f *ssa.Function) string {
	if n, ok := fnNames[f]; ok {
		return n
	}
	n := f.String()
	if o, ok := nameUsed[n]; ok && o != f {
		for i := 2; ; i++ {
			c := fmt.Sprintf("%s#%d", n, i)
			if _, ok := nameUsed[c]; !ok {
				n = c
				break
			}
		}
	}
	nameUsed[n] = f
	fnNames[f] = n
	return n
}

func pkgOf(f *ssa.Function) string {
	if f.Pkg != nil {
		return f.Pkg.Pkg.Path()
	}
	if f.Object() != nil && f.Object().Pkg() != nil {
		return f.Object().Pkg().Path()
	}
	if p := f.Parent(); p != nil {
		return pkgOf(p)
	}
	if o := f.Origin(); o != nil && o != f {
		return pkgOf(o)
	}
	return ""
}

func isWanted(path string) bool {
	if wanted[path] {
		return true
	}
	for _, p := range wantPref {
		if path == p || strings.HasPrefix(path, p+"/") {
			return true
		}
	}
	return false
}

func enqueue(f *ssa.Function) {
	if f == nil || queued[f] {
		return
	}
	queued[f] = true
	queue = append(queue, f)
}

func pos(p token.Pos) string {
	if !p.IsValid() {
		return ""
	}
	pp := prog.Fset.Position(p)
	return fmt.Sprintf("%s:%d", filepath.Base(pp.Filename), pp.Line)
}

func ref(v ssa.Value) *Ref {
	if v == nil {
		return nil
	}
	switch vv := v.(type) {
	case *ssa.Const:
		r := &Ref{K: "c", T: tstr(vv.Type())}
		if vv.Value == nil {
			r.V = nil
			r.N = "zero"
		} else {
			switch vv.Value.Kind() {
			case constant.Bool:
				r.V = constant.BoolVal(vv.Value)
			case constant.String:
				s := constant.StringVal(vv.Value)
				b := []int{}
				for i := 0; i < len(s); i++ {
					b = append(b, int(s[i]))
				}
				r.V = b
				r.N = "str"
			case constant.Int:
				r.V = vv.Value.ExactString()
				r.N = "int"
			case constant.Float:
				f, _ := constant.Float64Val(vv.Value)
				r.V = fmt.Sprintf("%v", f)
				r.N = "float"
			default:
				r.V = vv.Value.ExactString()
				r.N = "other"
			}
		}
		return r
	case *ssa.Global:
		n := vv.String()
		out.Globals[n] = tstr(vv.Type().(*types.Pointer).Elem())
		return &Ref{K: "g", N: n, T: tstr(vv.Type())}
	case *ssa.Function:
		if isWanted(pkgOf(vv)) || (vv.Synthetic != "" && vv.Pkg == nil) {
			enqueue(vv)
		}
		return &Ref{K: "f", N: fname(vv), T: tstr(vv.Type())}
	case *ssa.Builtin:
		return &Ref{K: "b", N: vv.Name()}
	case *ssa.Parameter:
		return &Ref{K: "r", N: "p:" + vv.Name()}
	case *ssa.FreeVar:
		return &Ref{K: "r", N: "f:" + vv.Name()}
	default:
		return &Ref{K: "r", N: v.Name()}
	}
}

func refs(vs []ssa.Value) []*Ref {
	r := make([]*Ref, len(vs))
	for i, v := range vs {
		r[i] = ref(v)
	}
	return r
}

func callj(c *ssa.CallCommon) *CallJ {
	cj := &CallJ{Args: refs(c.Args), Sig: tstr(c.Signature())}
	if c.IsInvoke() {
		cj.Mode = "invoke"
		cj.Method = c.Method.Id()
		cj.Recv = ref(c.Value)
		cj.RecvT = tstr(c.Value.Type())
		return cj
	}
	switch v := c.Value.(type) {
	case *ssa.Builtin:
		cj.Mode = "builtin"
		cj.Fn = ref(v)
	case *ssa.Function:
		cj.Mode = "static"
		cj.Fn = ref(v)
	default:
		cj.Mode = "closure"
		cj.Fn = ref(c.Value)
	}
	return cj
}

func needMS(t types.Type) {
	t = types.Unalias(t)
	s := tstr(t)
	if _, ok := msTypes[s]; ok {
		return
	}
	msTypes[s] = t
}

func exportFunc(f *ssa.Function) {
	name := fname(f)
	if _, ok := out.Funcs[name]; ok {
		return
	}
	fj := &Func{Name: name, Pkg: pkgOf(f), Synthetic: f.Synthetic, Pos: pos(f.Pos()), Recover: -1}
	out.Funcs[name] = fj
	for _, p := range f.Params {
		fj.Params = append(fj.Params, Param{N: "p:" + p.Name(), T: tstr(p.Type())})
	}
	for _, p := range f.FreeVars {
		fj.FreeVars = append(fj.FreeVars, Param{N: "f:" + p.Name(), T: tstr(p.Type())})
	}
	res := f.Signature.Results()
	for i := 0; i < res.Len(); i++ {
		fj.Results = append(fj.Results, tstr(res.At(i).Type()))
	}
	fj.Variadic = f.Signature.Variadic()
	if len(f.Blocks) == 0 {
		return
	}
	fj.HasBody = true
	if f.Recover != nil {
		fj.Recover = f.Recover.Index
	}
	for _, b := range f.Blocks {
		bj := &Block{Index: b.Index}
		for _, s := range b.Succs {
			bj.Succs = append(bj.Succs, s.Index)
		}
		for _, s := range b.Preds {
			bj.Preds = append(bj.Preds, s.Index)
		}
		for _, in := range b.Instrs {
			ij := exportInstr(in)
			if ij != nil {
				bj.Instrs = append(bj.Instrs, ij)
				fj.NInstr++
			}
		}
		fj.Blocks = append(fj.Blocks, bj)
	}
}

func exportInstr(in ssa.Instruction) *Instr {
	ij := &Instr{Pos: pos(in.Pos())}
	if v, ok := in.(ssa.Value); ok {
		ij.R = v.Name()
		ij.T = tstr(v.Type())
	}
	switch i := in.(type) {
	case *ssa.Alloc:
		ij.Op = "Alloc"
		ij.Heap = i.Heap
		ij.Comment = i.Comment
	case *ssa.BinOp:
		ij.Op = "BinOp"
		ij.O = i.Op.String()
		ij.X, ij.Y = ref(i.X), ref(i.Y)
		ij.XT = tstr(i.X.Type())
	case *ssa.Call:
		ij.Op = "Call"
		ij.Call = callj(&i.Call)
	case *ssa.ChangeInterface:
		ij.Op = "ChangeInterface"
		ij.X = ref(i.X)
	case *ssa.ChangeType:
		ij.Op = "ChangeType"
		ij.X = ref(i.X)
		ij.XT = tstr(i.X.Type())
	case *ssa.Convert:
		ij.Op = "Convert"
		ij.X = ref(i.X)
		ij.XT = tstr(i.X.Type())
	case *ssa.DebugRef:
		return nil
	case *ssa.Defer:
		ij.Op = "Defer"
		ij.Call = callj(&i.Call)
	case *ssa.Extract:
		ij.Op = "Extract"
		ij.X = ref(i.Tuple)
		ij.Field = i.Index
	case *ssa.Field:
		ij.Op = "Field"
		ij.X = ref(i.X)
		ij.Field = i.Field
		ij.XT = tstr(i.X.Type())
	case *ssa.FieldAddr:
		ij.Op = "FieldAddr"
		ij.X = ref(i.X)
		ij.Field = i.Field
		ij.XT = tstr(i.X.Type())
	case *ssa.Go:
		ij.Op = "Go"
		ij.Call = callj(&i.Call)
	case *ssa.If:
		ij.Op = "If"
		ij.X = ref(i.Cond)
	case *ssa.Index:
		ij.Op = "Index"
		ij.X, ij.Y = ref(i.X), ref(i.Index)
		ij.XT = tstr(i.X.Type())
	case *ssa.IndexAddr:
		ij.Op = "IndexAddr"
		ij.X, ij.Y = ref(i.X), ref(i.Index)
		ij.XT = tstr(i.X.Type())
	case *ssa.Jump:
		ij.Op = "Jump"
	case *ssa.Lookup:
		ij.Op = "Lookup"
		ij.X, ij.Y = ref(i.X), ref(i.Index)
		ij.CommaOk = i.CommaOk
		ij.XT = tstr(i.X.Type())
	case *ssa.MakeChan:
		ij.Op = "MakeChan"
	case *ssa.MakeClosure:
		ij.Op = "MakeClosure"
		ij.X = ref(i.Fn)
		ij.Binds = refs(i.Bindings)
	case *ssa.MakeInterface:
		ij.Op = "MakeInterface"
		ij.X = ref(i.X)
		ij.XT = tstr(i.X.Type())
		needMS(i.X.Type())
	case *ssa.MakeMap:
		ij.Op = "MakeMap"
	case *ssa.MakeSlice:
		ij.Op = "MakeSlice"
		ij.X, ij.Y = ref(i.Len), ref(i.Cap)
	case *ssa.MapUpdate:
		ij.Op = "MapUpdate"
		ij.X, ij.Y, ij.Z = ref(i.Map), ref(i.Key), ref(i.Value)
	case *ssa.Next:
		ij.Op = "Next"
		ij.X = ref(i.Iter)
		ij.IsStr = i.IsString
	case *ssa.Panic:
		ij.Op = "Panic"
		ij.X = ref(i.X)
	case *ssa.Phi:
		ij.Op = "Phi"
		ij.Edges = refs(i.Edges)
	case *ssa.Range:
		ij.Op = "Range"
		ij.X = ref(i.X)
		ij.XT = tstr(i.X.Type())
	case *ssa.Return:
		ij.Op = "Return"
		ij.Results = refs(i.Results)
	case *ssa.RunDefers:
		ij.Op = "RunDefers"
	case *ssa.Select:
		ij.Op = "Select"
	case *ssa.Send:
		ij.Op = "Send"
	case *ssa.Slice:
		ij.Op = "Slice"
		ij.X, ij.Y, ij.Z, ij.W = ref(i.X), ref(i.Low), ref(i.High), ref(i.Max)
		ij.XT = tstr(i.X.Type())
	case *ssa.SliceToArrayPointer:
		ij.Op = "SliceToArrayPointer"
		ij.X = ref(i.X)
	case *ssa.Store:
		ij.Op = "Store"
		ij.X, ij.Y = ref(i.Addr), ref(i.Val)
	case *ssa.TypeAssert:
		ij.Op = "TypeAssert"
		ij.X = ref(i.X)
		ij.AT = tstr(i.AssertedType)
		ij.CommaOk = i.CommaOk
		ij.XT = tstr(i.X.Type())
	case *ssa.UnOp:
		ij.Op = "UnOp"
		ij.O = i.Op.String()
		ij.X = ref(i.X)
		ij.CommaOk = i.CommaOk
		ij.XT = tstr(i.X.Type())
	default:
		ij.Op = fmt.Sprintf("Unsupported:%T", in)
	}
	return ij
}

func exportMethodSet(s string, t types.Type) {
	if _, ok := out.MethodSets[s]; ok {
		return
	}
	m := map[string]string{}
	out.MethodSets[s] = m
	if types.IsInterface(t) {
		return
	}
	ms := prog.MethodSets.MethodSet(t)
	for i := 0; i < ms.Len(); i++ {
		sel := ms.At(i)
		fn := prog.MethodValue(sel)
		if fn == nil {
			continue
		}
		m[sel.Obj().Id()] = fname(fn)
		if isWanted(pkgOf(fn)) || (fn.Synthetic != "" && fn.Pkg == nil) {
			enqueue(fn)
		} else if _, ok := out.Funcs[fname(fn)]; !ok {
			// record the signature only
			fj := &Func{Name: fname(fn), Pkg: pkgOf(fn), Synthetic: fn.Synthetic, Recover: -1}
			for _, p := range fn.Params {
				fj.Params = append(fj.Params, Param{N: "p:" + p.Name(), T: tstr(p.Type())})
			}
			res := fn.Signature.Results()
			for i := 0; i < res.Len(); i++ {
				fj.Results = append(fj.Results, tstr(res.At(i).Type()))
			}
			out.Funcs[fname(fn)] = fj
		}
	}
}

type strs []string

func (s *strs) String() string     { return strings.Join(*s, ",") }
func (s *strs) Set(v string) error { *s = append(*s, strings.Split(v, ",")...); return nil }

func main() {
	var dir, outPath, tags string
	var overlays, extra, extraFn strs
	flag.StringVar(&dir, "dir", "/repo", "module directory")
	flag.StringVar(&outPath, "o", "-", "output file")
	flag.StringVar(&tags, "tags", "verif", "build tags")
	flag.Var(&overlays, "overlay", "virtual=real file pairs")
	flag.Var(&extra, "extra", "extra package paths to export fully")
	flag.Var(&extraFn, "extrafn", "extra function names (ssa String()) to export")
	flag.Parse()

	ov := map[string][]byte{}
	for _, o := range overlays {
		kv := strings.SplitN(o, "=", 2)
		if len(kv) != 2 {
			fmt.Fprintln(os.Stderr, "bad overlay", o)
			os.Exit(2)
		}
		b, err := os.ReadFile(kv[1])
		if err != nil {
			fmt.Fprintln(os.Stderr, err)
			os.Exit(2)
		}
		ov[kv[0]] = b
	}
	cfg := &packages.Config{
		Mode:       packages.LoadAllSyntax,
		Dir:        dir,
		BuildFlags: []string{"-tags=" + tags},
		Overlay:    ov,
		Env:        append(os.Environ(), "GOFLAGS=-mod=mod", "GOPROXY=off", "GOSUMDB=off"),
	}
	pkgs, err := packages.Load(cfg, "./...")
	if err != nil {
		fmt.Fprintln(os.Stderr, "load:", err)
		os.Exit(2)
	}
	nerr := 0
	packages.Visit(pkgs, nil, func(p *packages.Package) {
		for _, e := range p.Errors {
			out.Errors = append(out.Errors, e.Error())
			nerr++
		}
	})
	if nerr > 0 {
		for _, e := range out.Errors {
			fmt.Fprintln(os.Stderr, "ERR", e)
		}
		os.Exit(3)
	}
	var ssapkgs []*ssa.Package
	prog, ssapkgs = ssautil.AllPackages(pkgs, ssa.InstantiateGenerics)
	prog.Build()

	rootPkgs := map[string]bool{}
	for _, p := range pkgs {
		rootPkgs[p.PkgPath] = true
		wanted[p.PkgPath] = true
	}
	for _, e := range extra {
		if e != "" {
			wantPref = append(wantPref, e)
		}
	}
	wantFn := map[string]bool{}
	for _, e := range extraFn {
		wantFn[e] = true
	}

	// all functions of wanted packages
	all := ssautil.AllFunctions(prog)
	var fl []*ssa.Function
	for f := range all {
		fl = append(fl, f)
	}
	sort.Slice(fl, func(i, j int) bool { return fl[i].String() < fl[j].String() })
	for _, f := range fl {
		if isWanted(pkgOf(f)) && f.Synthetic == "" || wantFn[f.String()] {
			enqueue(f)
		}
	}
	for _, sp := range prog.AllPackages() {
		if sp != nil && !rootPkgs[sp.Pkg.Path()] && isWanted(sp.Pkg.Path()) {
			if in := sp.Func("init"); in != nil {
				enqueue(in)
			}
			for _, m := range sp.Members {
				if g, ok := m.(*ssa.Global); ok {
					out.Globals[g.String()] = tstr(g.Type().(*types.Pointer).Elem())
				}
			}
		}
	}
	for _, sp := range ssapkgs {
		if sp == nil {
			continue
		}
		if isWanted(sp.Pkg.Path()) {
			if in := sp.Func("init"); in != nil {
				enqueue(in)
				out.Inits = append(out.Inits, fname(in))
			}
			for _, m := range sp.Members {
				switch mm := m.(type) {
				case *ssa.Type:
					needMS(mm.Type())
					needMS(types.NewPointer(mm.Type()))
				case *ssa.Function:
					if strings.HasPrefix(mm.Name(), "Harness_") {
						out.Harnesses = append(out.Harnesses, fname(mm))
					}
				case *ssa.Global:
					out.Globals[mm.String()] = tstr(mm.Type().(*types.Pointer).Elem())
				}
			}
		}
	}
	for {
		progress := false
		for len(queue) > 0 {
			f := queue[0]
			queue = queue[1:]
			exportFunc(f)
			progress = true
		}
		keys := make([]string, 0, len(msTypes))
		for k := range msTypes {
			keys = append(keys, k)
		}
		sort.Strings(keys)
		for _, k := range keys {
			if _, ok := out.MethodSets[k]; !ok {
				exportMethodSet(k, msTypes[k])
				progress = true
			}
		}
		if !progress {
			break
		}
	}
	// implements relation: for each interface type seen, the method-set types that implement it
	var ifaces []string
	for s, t := range typeSeen {
		if types.IsInterface(t) {
			ifaces = append(ifaces, s)
		}
	}
	sort.Strings(ifaces)
	for _, is := range ifaces {
		it := typeSeen[is].Underlying().(*types.Interface)
		var impl []string
		for ms, t := range msTypes {
			if types.IsInterface(t) {
				continue
			}
			if types.Implements(t, it) {
				impl = append(impl, ms)
			}
		}
		sort.Strings(impl)
		out.Implements[is] = impl
	}
	sort.Strings(out.Harnesses)

	var w *os.File = os.Stdout
	if outPath != "-" {
		w, err = os.Create(outPath)
		if err != nil {
			fmt.Fprintln(os.Stderr, err)
			os.Exit(2)
		}
		defer w.Close()
	}
	enc := json.NewEncoder(w)
	if err := enc.Encode(out); err != nil {
		fmt.Fprintln(os.Stderr, err)
		os.Exit(2)
	}
	fmt.Fprintf(os.Stderr, "ssaexport: %d funcs, %d types, %d methodsets, %d harnesses\n", len(out.Funcs), len(out.Types), len(out.MethodSets), len(out.Harnesses))
}
