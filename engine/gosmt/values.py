"""Value model of the gosmt symbolic interpreter.

Concrete sub-terms stay plain Python values; z3 terms only where symbolic.
  int kinds : python int | z3 ArithRef (Int sort, explicit wrap)
  bool      : python bool | z3 BoolRef
  string    : python str (chars 0..255 = Go bytes) | z3 SeqRef
  float64   : python float | z3 FPRef
  struct    : StructV (tuple subclass, immutable, optional ghost dict)
  array     : tuple
  pointer   : None | Ptr(cell, path) | Lazy
  slice     : Slice(base Ptr|None, off, len, cap) | Lazy
  map       : None | MapRef(cell) | Lazy
  interface : None | Iface(dyn, val) | Lazy
  func      : None | Closure(fn, binds) | Opaque callbacks | Lazy
  tuple     : python tuple wrapped in TupleV
  time.Time : TimeV(ns)  (unbounded Int nanoseconds since year 1)
"""
import z3


class StructV(tuple):
    """Immutable struct value; `ghost` carries model-only annotations."""
    def __new__(cls, items, ghost=None):
        o = tuple.__new__(cls, items)
        return o

    def with_field(self, i, v):
        l = list(self)
        l[i] = v
        return StructV(l)


class GStructV(StructV):
    """Struct value with a ghost dictionary (e.g. url.URL with its String())."""
    def __new__(cls, items, ghost=None):
        o = tuple.__new__(cls, items)
        o.ghost = ghost or {}
        return o

    def with_field(self, i, v):
        l = list(self)
        l[i] = v
        return StructV(l)   # ghost dropped: the value changed


class TupleV(tuple):
    __slots__ = ()


class Ptr:
    __slots__ = ('cell', 'path')

    def __init__(self, cell, path=()):
        self.cell = cell
        self.path = path

    def __eq__(self, o):
        return isinstance(o, Ptr) and self.cell == o.cell and self.path == o.path

    def __hash__(self):
        return hash((self.cell, self.path))

    def __repr__(self):
        return 'Ptr(%s%s)' % (self.cell, ''.join('.%s' % (p,) for p in self.path))


class Slice:
    __slots__ = ('base', 'off', 'len', 'cap')

    def __init__(self, base, off, ln, cap):
        self.base = base    # Ptr to array value, or None for nil slice
        self.off = off
        self.len = ln
        self.cap = cap

    def __repr__(self):
        return 'Slice(%r,%d,%d,%d)' % (self.base, self.off, self.len, self.cap)


NIL_SLICE = Slice(None, 0, 0, 0)


class SymBytes:
    """[]byte(s) of a symbolic string s: an immutable byte view whose length is Length(s)."""
    __slots__ = ('s',)

    def __init__(self, s):
        self.s = s

    def __repr__(self):
        return 'SymBytes(%s)' % (self.s,)


class MapRef:
    __slots__ = ('cell',)

    def __init__(self, cell):
        self.cell = cell

    def __eq__(self, o):
        return isinstance(o, MapRef) and self.cell == o.cell

    def __hash__(self):
        return hash(('map', self.cell))

    def __repr__(self):
        return 'MapRef(%s)' % self.cell


class Iface:
    __slots__ = ('dyn', 'val')

    def __init__(self, dyn, val):
        self.dyn = dyn
        self.val = val

    def __repr__(self):
        return 'Iface(%s,%r)' % (self.dyn, self.val)


class Closure:
    __slots__ = ('fn', 'binds')

    def __init__(self, fn, binds=()):
        self.fn = fn
        self.binds = tuple(binds)

    def __eq__(self, o):
        return isinstance(o, Closure) and self.fn == o.fn and self.binds == o.binds

    def __hash__(self):
        return hash((self.fn,))

    def __repr__(self):
        return 'Closure(%s)' % self.fn


class OpaqueFunc:
    """Configuration callback: an uninterpreted function of its arguments."""
    __slots__ = ('tag', 'sig')

    def __init__(self, tag, sig):
        self.tag = tag
        self.sig = sig

    def __repr__(self):
        return 'OpaqueFunc(%s)' % self.tag


class PyFunc:
    """A Go func value implemented by a Python callable (stub-provided)."""
    __slots__ = ('fn', 'tag')

    def __init__(self, fn, tag=''):
        self.fn = fn
        self.tag = tag


class TimeV:
    __slots__ = ('ns',)

    def __init__(self, ns):
        self.ns = ns

    def __repr__(self):
        return 'TimeV(%s)' % (self.ns,)


class Lazy:
    """Lazily initialised value of pointer / slice / interface / func / map type."""
    __slots__ = ('id', 'typ', 'tag', 'opts')

    def __init__(self, id, typ, tag, opts=None):
        self.id = id
        self.typ = typ
        self.tag = tag
        self.opts = opts or {}

    def __repr__(self):
        return 'Lazy(%s:%s)' % (self.tag, self.typ)


class Opaque:
    """Opaque library object (identity only)."""
    __slots__ = ('kind', 'id', 'attrs')

    def __init__(self, kind, id, attrs=None):
        self.kind = kind
        self.id = id
        self.attrs = attrs or {}

    def __repr__(self):
        return 'Opaque(%s#%s)' % (self.kind, self.id)


class RangeIter:
    __slots__ = ('kind', 'items', 'pos')

    def __init__(self, kind, items):
        self.kind = kind
        self.items = items
        self.pos = 0


def is_sym(v):
    return isinstance(v, z3.ExprRef)


def is_concrete_scalar(v):
    return isinstance(v, (int, bool, str, float))
