"""Path exploration, obligations, witnesses, parallel scheduling."""
import json, os, sys, time, traceback, multiprocessing
import z3
from . import core
from .core import Ctx, Interp, GoPanic, PathEnd, Inconclusive, Unwind, STUBS, stub, b_not, is_sym
from .values import *

PROG = None
BASE_STORE = None


def model_value(m, kind, term):
    try:
        v = m.eval(term, model_completion=True)
    except z3.Z3Exception:
        return None
    if kind in ('int', 'time'):
        try:
            return v.as_long()
        except Exception:
            return str(v)
    if kind == 'bool':
        return bool(z3.is_true(v))
    if kind == 'string':
        try:
            s = v.as_string()
        except Exception:
            return str(v)
        return z3_unescape(s)
    return str(v)


def z3_unescape(s):
    """z3 prints non-printable characters as \\u{XX}; return a list-of-codes friendly python str."""
    out = []
    i = 0
    while i < len(s):
        if s.startswith('\\u{', i):
            j = s.index('}', i)
            out.append(chr(int(s[i + 3:j], 16)))
            i = j + 1
        else:
            out.append(s[i])
            i += 1
    return ''.join(out)


def witness(ctx, m, extra=()):
    w = {}
    if m is not None:
        m = ascii_model(ctx, m, extra)
        for (name, kind, term) in ctx.nondets:
            w[name] = model_value(m, kind, term)
    w.update(ctx.choice_w)
    return w


def ascii_model(ctx, m, extra=()):
    """Prefer a model whose recorded strings are printable ASCII (replayable as Go/XML text)."""
    strs = [t for (n, k, t) in ctx.nondets if k == 'string']
    if not strs or ctx.opts.get('no_ascii_model'):
        return m
    printable = z3.Star(z3.Union(z3.Range('a', 'z'), z3.Range('A', 'Z'), z3.Range('0', '9'), z3.Re(':'), z3.Re('/'), z3.Re('.'), z3.Re('-'), z3.Re('_')))
    cons = [z3.InRe(t, printable) for t in strs]
    ctx.solver.push()
    try:
        for c in extra:
            ctx.solver.add(c)
        ctx.solver.add(*cons)
        ctx.solver.set('timeout', 10000)
        r = ctx.solver.check()
        if r == z3.sat:
            return ctx.solver.model()
    finally:
        ctx.solver.pop()
        ctx.solver.set('timeout', int(ctx.opts.get('timeout_ms', 60000)))
    return m


# ---- harness intrinsics (installed as stubs by suffix match)

def _label(v):
    return v if isinstance(v, str) else str(v)


def _ob_events(ctx):
    if ctx.ghost.get('sched_last') is not None:
        # the schedule: which thread was granted which mutex, in order
        return ['thread %s %s %s @%s' % e[1:5] for e in ctx.events if e and e[0] == 'sched' and len(e) >= 5]
    return [repr(e)[:300] for e in ctx.events[-12:]]


def i_assert(I, args, ins):
    ctx = I.ctx
    c, label = args[0], _label(args[1])
    ob = {'label': label, 'pos': ctx.cur_pos}
    if c is True:
        ob['verdict'] = 'discharged'
        ob['trivial'] = True
        ctx.obligations.append(ob)
        return None
    if c is False:
        r, m = ctx.check_sat()
        if r == 'unsat':
            raise PathEnd()
        ob['verdict'] = 'violated' if r == 'sat' else 'undecided'
        ob['witness'] = witness(ctx, m)
        ob['choices'] = list(ctx.trace_choices)
        ob['decisions'] = list(ctx.decisions)
        ob['events'] = _ob_events(ctx)
        ctx.obligations.append(ob)
        raise PathEnd()
    c = z3.simplify(c)
    t0 = time.time()
    r, m = ctx.check_sat(z3.Not(c))
    ob['solver_s'] = round(time.time() - t0, 4)
    if ctx.opts.get('dump_dir'):
        dump_query(ctx, z3.Not(c), label, r)
    if r == 'unsat':
        ob['verdict'] = 'discharged'
    elif r == 'sat':
        ob['verdict'] = 'violated'
        ob['witness'] = witness(ctx, m, (z3.Not(c),))
        ob['choices'] = list(ctx.trace_choices)
        ob['decisions'] = list(ctx.decisions)
        ob['events'] = _ob_events(ctx)
    else:
        ob['verdict'] = 'undecided'
        if ctx.opts.get('concrete_fallback'):
            m2 = concrete_search(ctx, c, int(ctx.opts['concrete_fallback']))
            if m2 is not None:
                ob['verdict'] = 'violated'
                ob['found_by'] = 'concrete evaluation of solver models of the path condition (the solver could not decide the query)'
                ob['witness'] = witness(ctx, m2, ())
                ob['choices'] = list(ctx.trace_choices)
                ob['decisions'] = list(ctx.decisions)
                r = 'sat'
    ctx.obligations.append(ob)
    # continue under the assumption that the assertion held
    ctx.add(c)
    ctx.model = None
    if r != 'unsat' and not ctx.feasible():
        raise PathEnd()
    return None


def concrete_search(ctx, c, tries):
    """Counterexample search for an obligation the solver cannot decide (floating point): take models of
    the path condition alone, diversified by random residues of the integer inputs, and evaluate the
    assertion under each model exactly. Finds violations only; it never discharges anything."""
    import random
    rnd = random.Random(int(ctx.opts.get('seed', 0)) + len(ctx.decisions))
    ints = [t for (n, k, t) in ctx.nondets if k == 'int']
    # a fresh solver: the path's own solver has internalised the floating-point query that timed out
    s = z3.Solver()
    for pc in ctx.pc:
        s.add(pc)
    s.set('timeout', 1000)
    t_end = time.time() + float(ctx.opts.get('concrete_fallback_s', 25))
    try:
        for i in range(tries):
            if time.time() > t_end:
                break
            s.push()
            try:
                for t in ints:
                    k = rnd.randrange(1, 20)
                    lo = rnd.randrange(10 ** k)
                    s.add(t >= lo, t <= lo + max(1, 10 ** (k - 1) // rnd.choice([1, 10, 1000])))
                if s.check() != z3.sat:
                    continue
                m = s.model()
                v = m.eval(c, model_completion=True)
                if z3.is_false(v):
                    return m
            finally:
                s.pop()
    finally:
        pass
    return None


def dump_query(ctx, extra, label, verdict):
    d = ctx.opts['dump_dir']
    n = ctx.ghost.setdefault('dumpn', [0])
    n[0] += 1
    os.makedirs(d, exist_ok=True)
    s = z3.Solver()
    for c in ctx.pc:
        s.add(c)
    s.add(extra)
    fn = os.path.join(d, '%s_%s_%d.smt2' % (ctx.opts.get('harness_short', 'h'), '-'.join(map(str, ctx.decisions[-12:])) or 'root', n[0]))
    with open(fn, 'w') as f:
        f.write('; label=%s expected=%s\n' % (label, verdict))
        f.write(s.to_smt2())


def refine_bounds(c):
    """Interval facts from an assumed comparison of a term with a numeral."""
    if not is_sym(c) or not z3.is_app(c):
        return
    neg = False
    if c.decl().kind() == z3.Z3_OP_NOT:
        neg = True
        c = c.arg(0)
    if c.num_args() != 2:
        return
    k = c.decl().kind()
    if neg:
        k = {z3.Z3_OP_GE: z3.Z3_OP_LT, z3.Z3_OP_LT: z3.Z3_OP_GE, z3.Z3_OP_LE: z3.Z3_OP_GT, z3.Z3_OP_GT: z3.Z3_OP_LE}.get(k)
        if k is None:
            return
    a, b = c.arg(0), c.arg(1)
    if z3.is_int_value(a) and not z3.is_int_value(b):
        a, b = b, a
        k = {z3.Z3_OP_GE: z3.Z3_OP_LE, z3.Z3_OP_LE: z3.Z3_OP_GE, z3.Z3_OP_GT: z3.Z3_OP_LT, z3.Z3_OP_LT: z3.Z3_OP_GT}.get(k, k)
    if not z3.is_int_value(b):
        return
    cur = core.bounds_of(a)
    if cur is None:
        return
    v = b.as_long()
    lo, hi = cur
    if k == z3.Z3_OP_GE:
        lo = max(lo, v)
    elif k == z3.Z3_OP_GT:
        lo = max(lo, v + 1)
    elif k == z3.Z3_OP_LE:
        hi = min(hi, v)
    elif k == z3.Z3_OP_LT:
        hi = min(hi, v - 1)
    else:
        return
    core.set_bounds(a, lo, hi)


def i_assume(I, args, ins):
    ctx = I.ctx
    ctx.assumes.append(ctx.cur_pos)
    ctx.assume(args[0])
    refine_bounds(args[0])
    return None


def i_reach(I, args, ins):
    I.ctx.reached.append(_label(args[0]))
    return None


def i_nondet_int(I, args, ins):
    return I.ctx.fresh_int(_label(args[0]), 'int', record=True)


def i_nondet_int64(I, args, ins):
    return I.ctx.fresh_int(_label(args[0]), 'int64', record=True)


def i_nondet_bool(I, args, ins):
    return I.ctx.fresh_bool(_label(args[0]), record=True)


def i_nondet_byte(I, args, ins):
    return I.ctx.fresh_int(_label(args[0]), 'uint8', record=True)


def i_nondet_string(I, args, ins):
    return I.ctx.fresh_str(_label(args[0]), record=True)


def i_nondet_bytes(I, args, ins):
    ctx = I.ctx
    tag = _label(args[0])
    n = ctx.concretize(args[1], 0, ctx.opts.get('maxmake', 80), 'nbytes')
    bs = tuple(ctx.fresh_int('%s[%d]' % (tag, i), 'uint8', record=True) for i in range(n))
    return Slice(ctx.alloc(bs, tag), 0, n, n)


def i_nondet_time(I, args, ins):
    ctx = I.ctx
    name = ctx.uname(_label(args[0]))
    v = z3.Int(name)
    ctx.add_inv(v >= 0)
    ctx.nondets.append((name, 'time', v))
    return TimeV(v)


def i_nondet_time_ms(I, args, ins):
    ctx = I.ctx
    name = ctx.uname(_label(args[0]))
    v = z3.Int(name)
    q = z3.Int(name + '/ms')
    ctx.add_inv(z3.And(v >= 0, v == q * 1000000))
    ctx.nondets.append((name, 'time', v))
    return TimeV(v)


def i_nondet_duration(I, args, ins):
    return I.ctx.fresh_int(_label(args[0]), 'int64', record=True)


def i_choose(I, args, ins):
    """verifChoose(tag, n): structural choice (forks the path), recorded in the witness."""
    ctx = I.ctx
    name = ctx.uname('choose:' + _label(args[0]))
    d = ctx.choose(args[1], name)
    ctx.choice_w[name] = d
    return d


def i_havoc(I, args, ins):
    ctx = I.ctx
    tag = _label(args[0])
    p = ctx.force(args[1])
    if not isinstance(p, Iface):
        raise Inconclusive('verifHavoc argument')
    t = I.prog.elem(p.dyn)
    ctx.store_(p.val, ctx.fresh(t, tag, {'record': True}))
    return None


def i_nondet_url(I, args, ins):
    ctx = I.ctx
    tag = _label(args[0])
    s = ctx.fresh_str(tag, record=True)
    v = ctx.fresh('net/url.URL', tag + '.fields')
    return GStructV(v, {'str': s})


def i_and(I, args, ins):
    return core.b_and(args[0], args[1])


def i_or(I, args, ins):
    return core.b_or(args[0], args[1])


def i_hex(I, args, ins):
    from .stubs.base import hex_of_bytes
    return hex_of_bytes(I, I.slice_elems(args[0]))


def i_nondet_string_nocolon(I, args, ins):
    ctx = I.ctx
    s = ctx.fresh_str(_label(args[0]), record=True)
    ctx.add_inv(z3.Not(z3.Contains(s, z3.StringVal(':'))))
    ctx.ghost.setdefault('nocolon', set()).add(str(s))
    return s


def i_nondet_bytes_len(I, args, ins):
    """A buffer of symbolic length (contents never read by the code under test)."""
    ctx = I.ctx
    n = ctx.fresh_int(_label(args[0]) + '.len', 'int', record=True)
    ctx.add_inv(z3.And(n >= 0, n <= args[1]))
    base = ctx.alloc((), 'symlen')
    return Slice(base, 0, n, n)


def i_param(I, args, ins):
    ctx = I.ctx
    name = _label(args[0])
    v = ctx.opts.get('params', {}).get(name, args[1])
    ctx.choice_w['param:' + name] = v
    return v


def i_nocolon(I, args, ins):
    s = args[0]
    if isinstance(s, str):
        return ':' not in s
    return z3.Not(z3.Contains(s, z3.StringVal(':')))


def describe(ctx, v, depth=0):
    v = ctx.force(v) if not isinstance(v, Lazy) or v.id in ctx.lazy else v
    if isinstance(v, Iface):
        if v.dyn in ('*errors.errorString', '*verif.error'):
            st = ctx.load(v.val)
            msg = st[0]
            w = st[1] if len(st) > 1 else None
            return 'error(%s%s)' % (str(msg)[:120], (' <- ' + describe(ctx, w, depth + 1)) if w is not None else '')
        if isinstance(v.val, Ptr) and depth < 3:
            try:
                return '%s{%s}' % (v.dyn.rsplit('/', 1)[-1], ', '.join(describe(ctx, x, depth + 1) for x in ctx.load(v.val))[:300])
            except Exception:
                pass
        return '%s(%s)' % (v.dyn.rsplit('/', 1)[-1], describe(ctx, v.val, depth + 1) if depth < 3 else '..')
    if isinstance(v, StructV):
        return '{%s}' % ', '.join(describe(ctx, x, depth + 1) for x in v)[:300] if depth < 3 else '{..}'
    return str(v)[:160]


def i_name_object(I, args, ins):
    """verifNameObject(name, p): names a shared object (mutex, field or map) for the event traces."""
    ctx = I.ctx
    name = _label(args[0])
    v = ctx.force(args[1])
    if isinstance(v, Iface):
        v = ctx.force(v.val)
    names = ctx.ghost.setdefault('object_names', {})
    if isinstance(v, Ptr):
        names[repr(('ptr', v.cell, v.path))] = name
    elif isinstance(v, MapRef):
        names[repr(('map', v.cell))] = name
    return None


def i_name_heap_object(I, args, ins):
    """verifNameHeapObject(name, p): every load and store through a pointer into the object p points to is
    recorded as a read / write of `name` (whole-object granularity)."""
    ctx = I.ctx
    v = ctx.force(args[1])
    if isinstance(v, Iface):
        v = ctx.force(v.val)
    if isinstance(v, Ptr):
        ctx.ghost.setdefault('shared_cells', {})[v.cell] = _label(args[0])
        ctx.ghost.setdefault('object_names', {})[repr(('cell', v.cell))] = _label(args[0])
    return None


def i_op(I, args, ins):
    I.ctx.event('op', _label(args[0]))
    return None


def i_note(I, args, ins):
    ctx = I.ctx
    ctx.ghost.setdefault('notes', []).append((_label(args[0]), describe(ctx, args[1])))
    return None


INTRINSICS = {
    'verifAssert': i_assert, 'verifAssume': i_assume, 'verifReach': i_reach,
    'verifNondetInt': i_nondet_int, 'verifNondetInt64': i_nondet_int64, 'verifNondetBool': i_nondet_bool,
    'verifNondetByte': i_nondet_byte, 'verifNondetString': i_nondet_string, 'verifNondetBytes': i_nondet_bytes,
    'verifNondetTime': i_nondet_time, 'verifNondetTimeMs': i_nondet_time_ms,
    'verifNondetDuration': i_nondet_duration, 'verifChoose': i_choose, 'verifHavoc': i_havoc, 'verifNote': i_note,
    'verifHex': i_hex, 'verifNameObject': i_name_object, 'verifNameHeapObject': i_name_heap_object, 'verifOp': i_op, 'verifParam': i_param, 'verifNondetBytesLen': i_nondet_bytes_len, 'verifNondetStringNoColon': i_nondet_string_nocolon, 'verifNoColon': i_nocolon, 'verifNondetURL': i_nondet_url, 'verifAnd': i_and, 'verifOr': i_or,
}


def install_intrinsics(prog):
    for name in prog.funcs:
        short = name.rsplit('.', 1)[-1]
        if short in INTRINSICS:
            STUBS[name] = INTRINSICS[short]
        elif short.startswith('verif') and short in EXTRA_INTRINSICS:
            STUBS[name] = EXTRA_INTRINSICS[short]


EXTRA_INTRINSICS = {}


def intrinsic(name):
    def deco(f):
        EXTRA_INTRINSICS[name] = f
        return f
    return deco


# ---- package init (concrete, once per process)

def run_inits(prog, opts):
    ctx = Ctx(prog, (), dict(opts, loop_limit=100000, instr_budget=50000000))
    I = Interp(ctx)
    errs = []
    for name in prog.inits:
        pkg = name.rsplit('.', 1)[0]
        if pkg.endswith('/example') or '/example/' in pkg or pkg.endswith('testsaml'):
            continue
        fj = prog.funcs.get(name)
        if not fj or not fj.get('hasbody'):
            continue
        try:
            I.exec_function(fj, [], ())
        except (GoPanic, Inconclusive, Unwind, PathEnd) as e:
            errs.append('%s: %s %s @%s in %s' % (name, type(e).__name__, e, ctx.cur_pos, getattr(e, 'gostack', [])[-4:]))
            ctx.callstack.clear()
            ctx.depth = 0
    return ctx, errs


# ---- one path

def run_path(harness, prefix, opts):
    prog = PROG
    ctx = Ctx(prog, prefix, opts, BASE_STORE['store'])
    ctx.ncell = BASE_STORE['ncell']
    ctx.ghost = {k: (dict(v) if isinstance(v, dict) else list(v) if isinstance(v, list) else v) for k, v in BASE_STORE['ghost'].items()}
    I = Interp(ctx)
    status = 'ok'
    detail = ''
    t0 = time.time()
    try:
        I.run_harness(harness)
    except PathEnd:
        status = 'killed'
    except GoPanic as gp:
        status = 'panic'
        detail = '%s@%s' % (gp.reason, gp.pos)
        if gp.reason == 'explicit' and gp.value is not None:
            detail += ' ' + panic_text(ctx, gp.value)
        if ctx.panic_is_violation or opts.get('panic_is_violation'):
            r, m = ctx.check_sat()
            if r != 'unsat':
                ctx.obligations.append({
                    'label': 'no-panic', 'pos': gp.pos, 'verdict': 'violated' if r == 'sat' else 'undecided',
                    'witness': witness(ctx, m), 'choices': list(ctx.trace_choices), 'decisions': list(ctx.decisions),
                    'panic': detail, 'stack': list(gp.stack),
                    'events': [repr(e)[:300] for e in ctx.events[-12:]]})
    except Unwind as e:
        status = 'unwind'
        detail = str(e)
    except Inconclusive as e:
        status = 'inconclusive'
        detail = str(e) + ' @' + ctx.cur_pos + ' in ' + (ctx.callstack[-1] if ctx.callstack else '')
    except z3.Z3Exception as e:
        status = 'inconclusive'
        detail = 'z3: %s @%s' % (e, ctx.cur_pos)
    except RecursionError:
        status = 'inconclusive'
        detail = 'python recursion limit'
    except Exception as e:
        status = 'inconclusive'
        detail = 'engine error: %s\n%s' % (e, traceback.format_exc()[-1500:])
    if status == 'ok' and (ctx.panic_is_violation or opts.get('panic_is_violation')):
        ctx.obligations.append({'label': 'no-panic', 'pos': '', 'verdict': 'discharged', 'trivial': True})
    reach_w = None
    if opts.get('want_reach') and ctx.reached and status in ('ok', 'panic') and not any(o['verdict'] != 'discharged' for o in ctx.obligations):
        try:
            r, m = ctx.check_sat()
            if r == 'sat':
                reach_w = witness(ctx, m)
        except Exception:
            reach_w = None
    return {
        'status': status, 'detail': detail, 'decisions': ctx.decisions, 'alts': ctx.alts, 'reach_w': reach_w,
        'obligations': ctx.obligations, 'reached': ctx.reached,
        'instrs': ctx.stats.instrs, 'queries': ctx.stats.queries, 'solver_s': ctx.stats.solver_s,
        'unknown': ctx.stats.unknown, 'stubs_hit': ctx.stubs_hit, 'opaque_calls': ctx.opaque_calls,
        'funcs_run': ctx.funcs_run, 'assumes': ctx.assumes, 'wall_s': time.time() - t0,
        'choices': ctx.trace_choices if opts.get('keep_choices') else None,
        'notes': ctx.ghost.get('notes') if opts.get('keep_choices') else None,
        'events': [e for e in ctx.events if e and e[0] in ('lock', 'acc', 'op')] if opts.get('trace_shared') else None,
        'names': ctx.ghost.get('object_names') if opts.get('trace_shared') else None,
    }


def panic_text(ctx, v):
    v = ctx.force(v)
    if isinstance(v, Iface):
        if isinstance(v.val, str):
            return v.val
        return v.dyn
    return ''


def _worker(task):
    harness, prefix, opts = task
    try:
        return run_path(harness, prefix, opts)
    except Exception as e:
        return {'status': 'inconclusive', 'detail': 'worker: %s %s' % (e, traceback.format_exc()[-800:]), 'decisions': list(prefix),
                'alts': [], 'obligations': [], 'reached': [], 'instrs': 0, 'queries': 0, 'solver_s': 0, 'unknown': 0,
                'stubs_hit': {}, 'opaque_calls': {}, 'funcs_run': {}, 'assumes': [], 'wall_s': 0, 'reach_w': None}


def explore(harness, opts, pool=None, max_paths=200000, deadline=None, progress=None):
    """Explore all paths of a harness.  Returns aggregate result."""
    agg = {
        'harness': harness, 'paths': 0, 'status_counts': {}, 'obligations': 0, 'discharged': 0, 'trivial': 0,
        'violations': [], 'undecided': [], 'reached': {}, 'instrs': 0, 'queries': 0, 'solver_s': 0.0,
        'unknown': 0, 'stubs_hit': {}, 'opaque_calls': {}, 'funcs_run': {}, 'inconclusive': [], 'unwind': [],
        'labels': {}, 'panics': {}, 'complete': True, 'assumes': set(), 'reach_witness': {},
    }
    nsub = [0]

    def task_opts():
        nsub[0] += 1
        if nsub[0] <= opts.get('reach_sample', 300) and opts.get('validate_reach', True):
            return dict(opts, want_reach=True)
        return opts
    pending = [[]]
    inflight = []
    t0 = time.time()

    def absorb(r):
        agg['paths'] += 1
        agg['status_counts'][r['status']] = agg['status_counts'].get(r['status'], 0) + 1
        for ob in r['obligations']:
            agg['obligations'] += 1
            lab = agg['labels'].setdefault(ob['label'], {'n': 0, 'discharged': 0, 'violated': 0, 'undecided': 0, 'trivial': 0})
            lab['n'] += 1
            if ob['verdict'] == 'discharged':
                agg['discharged'] += 1
                lab['discharged'] += 1
                if ob.get('trivial'):
                    agg['trivial'] += 1
                    lab['trivial'] += 1
            elif ob['verdict'] == 'violated':
                lab['violated'] += 1
                if len(agg['violations']) < 400:
                    agg['violations'].append(ob)
            else:
                lab['undecided'] += 1
                agg['undecided'].append({'label': ob['label'], 'pos': ob.get('pos')})
        for l in r['reached']:
            agg['reached'][l] = agg['reached'].get(l, 0) + 1
            if r.get('reach_w') is not None and r['status'] == 'ok' and l not in agg['reach_witness']:
                agg['reach_witness'][l] = r['reach_w']
        for k in ('instrs', 'queries', 'solver_s', 'unknown'):
            agg[k] += r[k]
        for k in ('stubs_hit', 'opaque_calls', 'funcs_run'):
            for n, c in r[k].items():
                agg[k][n] = agg[k].get(n, 0) + c
        agg['assumes'].update(r['assumes'])
        if r.get('events') is not None and r['status'] in ('ok', 'panic'):
            from .interleave import normalise
            op, tr = normalise(r['events'], r.get('names') or {})
            if op is not None:
                agg.setdefault('traces', {}).setdefault(op, set()).add(tuple(tr))
        if r['status'] == 'inconclusive':
            if len(agg['inconclusive']) < 50:
                agg['inconclusive'].append(r['detail'])
            agg['complete'] = False
        if r['status'] == 'unwind':
            if len(agg['unwind']) < 50:
                agg['unwind'].append(r['detail'])
            agg['complete'] = False
        if r['status'] == 'panic':
            agg['panics'][r['detail']] = agg['panics'].get(r['detail'], 0) + 1
        pending.extend(r['alts'])

    if pool is None:
        while pending:
            if agg['paths'] >= max_paths or (deadline and time.time() > deadline):
                agg['complete'] = False
                agg['truncated'] = len(pending)
                break
            p = pending.pop()
            absorb(_worker((harness, p, task_opts())))
            if progress and agg['paths'] % 50 == 0:
                progress(agg, len(pending))
    else:
        while pending or inflight:
            if agg['paths'] + len(inflight) >= max_paths or (deadline and time.time() > deadline):
                if pending:
                    agg['complete'] = False
                    agg['truncated'] = len(pending)
                    pending.clear()
            while pending and len(inflight) < pool._processes * 3:
                p = pending.pop()
                inflight.append(pool.apply_async(_worker, ((harness, p, task_opts()),)))
            still = []
            got = False
            for a in inflight:
                if a.ready():
                    absorb(a.get())
                    got = True
                else:
                    still.append(a)
            inflight = still
            if deadline and time.time() > deadline + opts.get('grace_s', 90) and inflight:
                agg['complete'] = False
                agg['abandoned'] = len(inflight)
                inflight = []
                agg['pool_dirty'] = True
                break
            if not got:
                time.sleep(0.005)
            if progress and got and agg['paths'] % 100 == 0:
                progress(agg, len(pending) + len(inflight))
    agg['wall_s'] = time.time() - t0
    agg['assumes'] = sorted(agg['assumes'])
    return agg


def setup(ssa_json, opts):
    """Load the program, install stubs and run package initialisers (before forking workers)."""
    global PROG, BASE_STORE
    from . import stubs  # noqa: registers stubs
    PROG = core.Program(ssa_json)
    stubs.install(PROG)
    install_intrinsics(PROG)
    ctx, errs = run_inits(PROG, opts)
    BASE_STORE = {'store': ctx.store, 'ncell': ctx.ncell, 'ghost': ctx.ghost}
    return PROG, errs
