"""Interleaved execution of the real code at lock granularity (C20 linearizability).

verifConcurrent(f0, f1, ...) runs the closures as threads of one symbolic path. A thread runs until it is
about to acquire a mutex; there the scheduler chooses (a structural choice of the path, so the DFS covers
every schedule) which enabled thread continues. For code whose shared accesses are all inside critical
sections (the race check of the trace model decides that separately) context switches at acquisitions
are enough: everything a thread does between two acquisitions commutes with the other threads.

Lock semantics: Mutex / RWMutex writer excludes everybody, readers exclude writers. Writer preference is
not modelled here (a writer waiting at its acquisition has not done anything observable yet); the deadlock
query of the trace model covers it. A state with unfinished threads and none enabled is reported as a
deadlock panic.

Invocation/response stamps for the linearizability oracle: verifOpBegin() opens an operation, its
invocation is stamped when the thread is next granted a lock (as late as possible), verifOpEnd(h) stamps
the response right after the operation's last instruction (as early as possible) - the tightest real-time
order this lock order admits."""
import sys
import threading

from .core import STUBS, GoPanic, Inconclusive, PathEnd, Interp
from .values import *
from .runner import intrinsic

threading.stack_size(512 * 1024 * 1024)


class _Abort(BaseException):
    pass


class Thread:
    def __init__(self, tid, fn):
        self.tid = tid
        self.fn = fn
        self.sem = threading.Semaphore(0)
        self.done = False
        self.exc = None
        self.want = None        # (kind, lock id, pos) the thread is waiting to acquire
        self.pending = []       # operations begun, invocation not yet stamped
        self.state = None       # saved per-thread interpreter state (depth, callstack, cur_pos)
        self.py = None


class Scheduler:
    def __init__(self, I, fns):
        self.I = I
        self.ctx = I.ctx
        self.threads = [Thread(i, f) for i, f in enumerate(fns)]
        self.main = threading.Semaphore(0)
        self.locks = {}         # lock id -> {'w': tid or None, 'r': {tid: count}}
        self.clock = 0
        self.inv = {}
        self.ret = {}
        self.nops = 0
        self.cur = None
        self.abort = False

    # ---- lock state
    def _ls(self, lid):
        return self.locks.setdefault(lid, {'w': None, 'r': {}})

    def can(self, want):
        if want is None:
            return True
        kind, lid, _ = want
        st = self._ls(lid)
        if kind == 'Lock':
            return st['w'] is None and not st['r']
        return st['w'] is None

    def grant(self, t):
        kind, lid, pos = t.want
        st = self._ls(lid)
        if kind == 'Lock':
            st['w'] = t.tid
        else:
            st['r'][t.tid] = st['r'].get(t.tid, 0) + 1
        t.want = None
        self.ctx.event('sched', t.tid, kind, self.ctx.ghost.get('object_names', {}).get(lid, str(lid)), pos)
        for h in t.pending:
            self.clock += 1
            self.inv[h] = self.clock
        t.pending = []

    def release(self, t, kind, lid):
        st = self._ls(lid)
        if kind == 'Unlock':
            if st['w'] != t.tid:
                raise GoPanic('unlock of unlocked mutex', self.ctx.cur_pos)
            st['w'] = None
        else:
            n = st['r'].get(t.tid, 0)
            if n <= 0:
                raise GoPanic('RUnlock of unlocked RWMutex', self.ctx.cur_pos)
            if n == 1:
                del st['r'][t.tid]
            else:
                st['r'][t.tid] = n - 1

    # ---- thread side
    def _body(self, t):
        t.sem.acquire()
        try:
            if self.abort:
                return
            Interp(self.ctx).call_value(t.fn, [], None)
        except _Abort:
            pass
        except BaseException as e:      # PathEnd, GoPanic, Inconclusive, ...: re-raised by the scheduler
            t.exc = e
        finally:
            t.done = True
            self.main.release()

    def yield_for(self, t, want):
        """Called on thread t: wait until the scheduler grants `want`."""
        t.want = want
        self.main.release()
        t.sem.acquire()
        if self.abort:
            raise _Abort()

    # ---- scheduler side
    def _switch_to(self, t):
        ctx = self.ctx
        saved = (ctx.depth, ctx.callstack, ctx.cur_pos)
        if t.state is not None:
            ctx.depth, ctx.callstack, ctx.cur_pos = t.state
        else:
            ctx.depth, ctx.callstack = saved[0], list(saved[1])
        self.cur = t
        t.sem.release()
        self.main.acquire()
        self.cur = None
        t.state = (ctx.depth, ctx.callstack, ctx.cur_pos)
        ctx.depth, ctx.callstack, ctx.cur_pos = saved

    def _stop_all(self):
        self.abort = True
        for t in self.threads:
            if not t.done and t.py is not None:
                t.sem.release()
        for t in self.threads:
            if t.py is not None:
                t.py.join()

    def run(self):
        ctx = self.ctx
        for t in self.threads:
            t.py = threading.Thread(target=self._body, args=(t,), daemon=True)
            t.py.start()
        try:
            # every thread first runs up to its first acquisition (that prefix is thread-local)
            for t in self.threads:
                self._switch_to(t)
                if t.exc is not None:
                    raise t.exc
            while True:
                live = [t for t in self.threads if not t.done]
                if not live:
                    break
                enabled = [t for t in live if self.can(t.want)]
                if not enabled:
                    ctx.event('sched', 'deadlock', [(t.tid, t.want) for t in live])
                    raise GoPanic('deadlock: every unfinished thread waits for a held mutex', live[0].want[2])
                t = enabled[ctx.choose(len(enabled), 'sched')] if len(enabled) > 1 else enabled[0]
                if t.want is not None:
                    self.grant(t)
                self._switch_to(t)
                if t.exc is not None:
                    raise t.exc
        finally:
            self._stop_all()


def current(ctx):
    s = ctx.ghost.get('sched')
    if s is None or s.cur is None:
        return None, None
    if threading.current_thread() is not s.cur.py:
        return None, None
    return s, s.cur


def _wrap_lock(name, kind):
    orig = STUBS[name]

    def f(I, args, ins):
        ctx = I.ctx
        s, t = current(ctx)
        if s is None:
            return orig(I, args, ins)
        p = ctx.force(args[0])
        if p is None:
            raise GoPanic('nil-deref', ctx.cur_pos)
        lid = (p.cell, p.path)
        if kind in ('Lock', 'RLock'):
            s.yield_for(t, (kind, lid, ctx.cur_pos))
        else:
            s.release(t, kind, lid)
        return orig(I, args, ins)
    return f


for _n, _k in (('(*sync.RWMutex).Lock', 'Lock'), ('(*sync.RWMutex).Unlock', 'Unlock'),
               ('(*sync.RWMutex).RLock', 'RLock'), ('(*sync.RWMutex).RUnlock', 'RUnlock'),
               ('(*sync.Mutex).Lock', 'Lock'), ('(*sync.Mutex).Unlock', 'Unlock')):
    STUBS[_n] = _wrap_lock(_n, _k)


@intrinsic('verifConcurrent')
def i_concurrent(I, args, ins):
    ctx = I.ctx
    fns = I.slice_elems(ctx.force(args[0]))
    if ctx.ghost.get('sched') is not None:
        raise Inconclusive('nested verifConcurrent')
    old = ctx.ghost.get('sched_last')
    s = Scheduler(I, fns)
    if old is not None:                      # stamps keep growing across successive concurrent phases
        s.clock, s.inv, s.ret, s.nops = old.clock, old.inv, old.ret, old.nops
    ctx.ghost['sched'] = s
    try:
        s.run()
    finally:
        ctx.ghost['sched'] = None
        ctx.ghost['sched_last'] = s
    return None


@intrinsic('verifOpBegin')
def i_op_begin(I, args, ins):
    ctx = I.ctx
    s, t = current(ctx)
    if s is None:
        s = ctx.ghost.get('sched_last')
        if s is None:
            s = ctx.ghost['sched_last'] = Scheduler(I, [])
        s.nops += 1
        s.clock += 1
        s.inv[s.nops] = s.clock
        return s.nops
    s.nops += 1
    t.pending.append(s.nops)
    return s.nops


@intrinsic('verifOpEnd')
def i_op_end(I, args, ins):
    ctx = I.ctx
    h = args[0]
    s, t = current(ctx)
    if s is None:
        s = ctx.ghost.get('sched_last')
    elif h in t.pending:
        t.pending.remove(h)
        s.clock += 1
        s.inv[h] = s.clock
    s.clock += 1
    s.ret[h] = s.clock
    return None


@intrinsic('verifOpInvoked')
def i_op_invoked(I, args, ins):
    s = I.ctx.ghost.get('sched') or I.ctx.ghost.get('sched_last')
    return s.inv.get(args[0], 0)


@intrinsic('verifOpReturned')
def i_op_returned(I, args, ins):
    s = I.ctx.ghost.get('sched') or I.ctx.ghost.get('sched_last')
    return s.ret.get(args[0], 0)
