"""golang-jwt boundary: tokens are strings with a provenance (who signed, with which algorithm, which claims).
ParseWithClaims, the ValidMethods loop, the key function and Claims.Valid() are executed from the library's SSA;
only serialisation (SignedString / ParseUnverified) and signature verification are contracts."""
import z3
from ..core import (STUBS, INVOKE_STUBS, stub, GoPanic, Inconclusive, zint, zstr, b_and, b_or, b_not, is_sym)
from ..values import *

JWT = 'github.com/golang-jwt/jwt/v4.'
SP = 'github.com/crewjam/saml/samlsp.'
FAMILY = {'RS': 0, 'PS': 0, 'ES': 1, 'HS': 'hmac', 'no': 'none', 'Ed': 2}


def _alg_of(I, method):
    method = I.ctx.force(method)
    if method is None:
        raise GoPanic('nil-interface-invoke', I.ctx.cur_pos)
    return I.invoke(method, 'Alg', [], None)


def _key_id(I, key):
    """Identity of a signing/verification key value: ('key',kind,id) / ('pub',kind,id) / ('bytes', ...) / ('none',) / None."""
    ctx = I.ctx
    key = ctx.force(key)
    if isinstance(key, Iface):
        v = ctx.force(key.val)
        if isinstance(v, Ptr):
            k = ctx.ghost.get('keycells', {}).get(v.cell)
            if k is not None:
                return ('key',) + k
            k = ctx.ghost.get('pubcells', {}).get(v.cell)
            if k is not None:
                return ('pub',) + k
        if key.dyn == '[]byte':
            return ('bytes', tuple(str(e) for e in I.slice_elems(v)))
        if key.dyn.endswith('unsafeNoneMagicConstant'):
            return ('none',)
    return None


def _claims_value(I, claims):
    """(type, value) of a jwt.Claims interface value (by value or pointer)."""
    ctx = I.ctx
    claims = ctx.force(claims)
    if not isinstance(claims, Iface):
        raise Inconclusive('claims value')
    if I.prog.kind(claims.dyn) == 'ptr':
        return I.prog.elem(claims.dyn), ctx.load(ctx.force(claims.val))
    return claims.dyn, claims.val


@stub('(*' + JWT + 'Token).SignedString')
def jwt_signed_string(I, args, ins):
    ctx = I.ctx
    tok = ctx.load(ctx.force(args[0]))
    T = JWT + 'Token'
    method = tok[I.prog.field_index(T, 'Method')]
    alg = _alg_of(I, method)
    kid = _key_id(I, args[1])
    fam = FAMILY.get(alg[:2]) if isinstance(alg, str) else None
    ok = False
    if kid is not None:
        if kid[0] == 'key' and fam == kid[1]:
            ok = True
        if kid[0] == 'bytes' and fam == 'hmac':
            ok = True
        if kid[0] == 'none' and fam == 'none':
            ok = True
    if not ok:
        return TupleV(('', ctx.new_error('jwt', msg='key is of invalid type')))
    ct, cv = _claims_value(I, tok[I.prog.field_index(T, 'Claims')])
    s = ctx.fresh_str('jwt')
    ctx.add_inv(z3.Length(s) > 16)
    ctx.ghost.setdefault('jwt', {})[str(s)] = {'alg': alg, 'key': kid, 'ctype': ct, 'claims': cv}
    ctx.ghost.setdefault('string_tag', {})[str(s)] = ('jwt',)
    return TupleV((s, None))


def _fields(I, t):
    return [f['n'] for f in I.prog.fields(t)]


def convert_claims(I, st, sv, tt):
    """JSON re-decoding of claims of type st into type tt; None = decode error."""
    ctx = I.ctx
    if st == tt:
        return sv
    S, Tr = SP + 'JWTSessionClaims', SP + 'JWTTrackedRequestClaims'
    if st == S and tt == Tr:
        # {aud: "x", iss, sub, exp, nbf, iat, jti, attr, saml-session} read as registered claims + tracked request
        sc = sv[0]       # jwt.StandardClaims: Audience ExpiresAt Id IssuedAt Issuer NotBefore Subject
        f = dict(zip(_fields(I, JWT + 'StandardClaims'), sc))
        RT = JWT + 'RegisteredClaims'
        rc = I.prog.zero(RT)

        def numdate(v):
            # NumericDate pointer: absent when the int64 claim is zero (omitempty)
            if not is_sym(v) and v == 0:
                return None
            nd = ctx.alloc(StructV([TimeV(zint(v) * 1000000000 + 62135596800 * 1000000000)]), 'numdate')
            return nd
        aud = Slice(ctx.alloc((f['Audience'],), 'aud'), 0, 1, 1)
        vals = {'Issuer': f['Issuer'], 'Subject': f['Subject'], 'Audience': aud, 'ID': f['Id'],
                'ExpiresAt': numdate(f['ExpiresAt']), 'NotBefore': numdate(f['NotBefore']), 'IssuedAt': numdate(f['IssuedAt'])}
        for n, v in vals.items():
            rc = rc.with_field(I.prog.field_index(RT, n), v)
        out = I.prog.zero(Tr)
        out = out.with_field(0, rc)
        return out      # TrackedRequest empty (no id/uri claims), saml-authn-request false
    if st == Tr and tt == S:
        return None      # "aud" is a JSON array in registered claims: it does not decode into a string
    return None


@stub('(*' + JWT + 'Parser).ParseUnverified')
def jwt_parse_unverified(I, args, ins):
    ctx = I.ctx
    parser, s, claims = args
    rec = ctx.ghost.get('jwt', {}).get(str(s)) if is_sym(s) else None
    claims = ctx.force(claims)
    T = JWT + 'Token'
    if rec is None:
        # not a token minted in this run: malformed (foreign well-formed tokens are built by the harness)
        return TupleV((None, NIL_SLICE, ctx.new_error('jwt', msg='token contains an invalid number of segments')))
    tt = I.prog.elem(claims.dyn) if I.prog.kind(claims.dyn) == 'ptr' else claims.dyn
    cv = convert_claims(I, rec['ctype'], rec['claims'], tt)
    tok = I.prog.zero(T)
    tok = tok.with_field(I.prog.field_index(T, 'Raw'), s)
    if cv is None:
        return TupleV((ctx.alloc(tok, 'token'), NIL_SLICE, ctx.new_error('jwt', msg='json: cannot unmarshal claims')))
    if I.prog.kind(claims.dyn) == 'ptr':
        ctx.store_(ctx.force(claims.val), cv)
    tok = tok.with_field(I.prog.field_index(T, 'Claims'), claims)
    method = I.call_function(JWT + 'GetSigningMethod', [rec['alg']], ins)
    if ctx.force(method) is None:
        return TupleV((ctx.alloc(tok, 'token'), NIL_SLICE, ctx.new_error('jwt', msg='signing method (alg) is unavailable.')))
    tok = tok.with_field(I.prog.field_index(T, 'Method'), method)
    sig = ctx.fresh_str('jwtsig')
    ctx.ghost.setdefault('jwtsig', {})[str(sig)] = rec
    parts = I.make_slice([ctx.fresh_str('jwthdr'), ctx.fresh_str('jwtclaims'), sig])
    return TupleV((ctx.alloc(tok, 'token'), parts, None))


def _verify(family):
    def f(I, args, ins):
        ctx = I.ctx
        m, signing_string, sig, key = args
        rec = ctx.ghost.get('jwtsig', {}).get(str(sig)) if is_sym(sig) else None
        kid = _key_id(I, key)
        alg = I.call_function(ins['call']['fn']['n'].replace('.Verify', '.Alg'), [m], ins) if False else None
        malg = _alg_of(I, Iface(_dyn_of(family), ctx.force(m)))
        if rec is None or kid is None:
            return ctx.new_error('jwt', msg='verification error')
        if family == 'hmac':
            if kid[0] != 'bytes':
                return ctx.new_error('jwt', msg='key is of invalid type')
            ok = rec['key'] == kid and rec['alg'] == malg
        else:
            if kid[0] != 'pub' or kid[1] != family:
                return ctx.new_error('jwt', msg='key is of invalid type')
            ok = rec['key'] == ('key',) + kid[1:] and rec['alg'] == malg
        return None if ok else ctx.new_error('jwt', msg='crypto: verification error')
    return f


def _dyn_of(family):
    return {0: '*' + JWT + 'SigningMethodRSA', 1: '*' + JWT + 'SigningMethodECDSA', 'hmac': '*' + JWT + 'SigningMethodHMAC'}[family]


STUBS['(*' + JWT + 'SigningMethodRSA).Verify'] = _verify(0)
STUBS['(*' + JWT + 'SigningMethodECDSA).Verify'] = _verify(1)
STUBS['(*' + JWT + 'SigningMethodHMAC).Verify'] = _verify('hmac')


def install(prog):
    pass
