"""Numeral tokens for C15 (Duration text round trip).

With opts['dec_tokens'] the decimal numerals that fmt produces from symbolic integers are kept as
tokens (uninterpreted functions of the integer) inside the string term:
    Dec(x)            "%d" of x >= 0
    Pad9(n)           ".%09d" of 0 <= n < 1e9
    Frac(n, tz)       Pad9(n) with its tz trailing zeros trimmed (tz concrete, n = k*10^tz, k%10 != 0)
    FracDigits(n, tz) the digits of Frac(n, tz) without the dot
strconv.Atoi / ParseFloat, strings.Cut / TrimRight and the two duration regexps read the tokens back
structurally, so the arithmetic the solver sees is over the integers themselves (no digit strings)."""
import re
import z3
from ..core import (STUBS, stub, GoPanic, Inconclusive, PathEnd, zint, zstr, b_and, b_or, b_not, is_sym)
from ..values import *
from . import base
from .httpstubs import concat_parts

DEC = z3.Function('fmt.Dec', z3.IntSort(), z3.StringSort())
PAD9 = z3.Function('fmt.Pad9', z3.IntSort(), z3.StringSort())
FRAC = z3.Function('fmt.Frac', z3.IntSort(), z3.IntSort(), z3.StringSort())
FRACD = z3.Function('fmt.FracDigits', z3.IntSort(), z3.IntSort(), z3.StringSort())
# digit mode (opts['dec_tokens'] == 'digits'): a numeral is a concrete-length run of one-character tokens,
# each the decimal digit of a fresh integer 0..9 tied to the number by  x = sum d_i * 10^i .  Every string
# operation then works position by position, whatever format or cutset the code uses.
DIGIT = z3.Function('fmt.Digit', z3.IntSort(), z3.StringSort())


def dec(ctx, x):
    return DEC(zint(x))


def pad9(ctx, n):
    return PAD9(zint(n))


def frac(ctx, n, tz):
    return FRAC(zint(n), tz)


def fracd(ctx, n, tz):
    return FRACD(zint(n), tz)


def tokens(t):
    """Atoms of a string term: ('c', ch) / ('dec', x) / ('pad9', n) / ('frac', n, tz) / ('fracd', n, tz) / ('o', term)."""
    from ..runner import z3_unescape
    if isinstance(t, str):
        return [('c', ch) for ch in t]
    out = []
    for p in concat_parts(t):
        if z3.is_string_value(p):
            out.extend(('c', ch) for ch in z3_unescape(p.as_string()))
        elif z3.is_app(p) and p.decl().name() == 'fmt.Dec':
            out.append(('dec', p.arg(0)))
        elif z3.is_app(p) and p.decl().name() == 'fmt.Digit':
            out.append(('dg', p.arg(0)))
        elif z3.is_app(p) and p.decl().name() == 'fmt.Pad9':
            out.append(('pad9', p.arg(0)))
        elif z3.is_app(p) and p.decl().name() == 'fmt.Frac':
            out.append(('frac', p.arg(0), p.arg(1).as_long()))
        elif z3.is_app(p) and p.decl().name() == 'fmt.FracDigits':
            out.append(('fracd', p.arg(0), p.arg(1).as_long()))
        else:
            out.append(('o', p))
    return out


def untokens(ctx, atoms):
    parts, cur = [], ''
    for a in atoms:
        if a[0] == 'c':
            cur += a[1]
            continue
        if cur:
            parts.append(z3.StringVal(cur))
            cur = ''
        if a[0] == 'dec':
            parts.append(dec(ctx, a[1]))
        elif a[0] == 'dg':
            parts.append(DIGIT(a[1]))
        elif a[0] == 'pad9':
            parts.append(pad9(ctx, a[1]))
        elif a[0] == 'frac':
            parts.append(frac(ctx, a[1], a[2]))
        elif a[0] == 'fracd':
            parts.append(fracd(ctx, a[1], a[2]))
        else:
            parts.append(a[1])
    if not parts:
        return cur
    if cur:
        parts.append(z3.StringVal(cur))
    return parts[0] if len(parts) == 1 else z3.Concat(*parts)


def has_tokens(t):
    return is_sym(t) and any(a[0] in ('dec', 'pad9', 'frac', 'fracd', 'dg') for a in tokens(t))


def digit_run(ctx, x, width=None):
    """Atoms of fmt's %d / %0<width>d of the integer term x: case split on the number of digits."""
    from .. import core
    x = zint(x)
    if ctx.branch(x < 0):
        if width is not None:
            raise Inconclusive('zero-padded negative numeral')
        return [('c', '-')] + digit_run(ctx, -x)
    b = core.bounds_of(x)
    maxd = len(str(b[1])) if b is not None and b[1] >= 0 else 20
    maxd = min(maxd, 20)
    n = None
    lo = width if width is not None else 1
    for k in range(lo, maxd):
        if ctx.branch(x < 10 ** k):
            n = k
            break
    if n is None:
        n = max(maxd, lo)
    ds = []
    for i in range(n):
        d = ctx.fresh_int('digit', 'int')
        core.set_bounds(d, 0, 9)
        ctx.add_inv(z3.And(d >= 0, d <= 9))
        ds.append(d)
    ctx.add_inv(x == z3.Sum([ds[i] * (10 ** i) for i in range(n)]) if n > 1 else x == ds[0])
    if n > lo or (width is None and n > 1):
        ctx.add_inv(ds[n - 1] >= 1)
    return [('dg', d) for d in reversed(ds)]


def sprintf_digits(I, fmt, args):
    ctx = I.ctx
    parts = base._parse_format(fmt)
    if parts is None:
        return None
    atoms, ai = [], 0
    for kind, p in parts:
        if kind == 'lit':
            atoms.extend(('c', ch) for ch in p)
            continue
        a = args[ai] if ai < len(args) else None
        ai += 1
        val = ctx.force(a.val) if isinstance(a, Iface) else a
        m = re.fullmatch(r'(0(\d+))?d', p)
        if m and isinstance(val, int) and not isinstance(val, bool):
            atoms.extend(('c', ch) for ch in (('%' + p) % val))
        elif m and is_sym(val) and z3.is_int(val):
            atoms.extend(digit_run(ctx, val, int(m.group(2)) if m.group(2) else None))
        elif p == 's' and isinstance(val, str):
            atoms.extend(('c', ch) for ch in val)
        elif p == 's' and is_sym(val) and z3.is_string(val):
            atoms.extend(tokens(val))
        else:
            return None
    return untokens(ctx, atoms)


# ---- fmt: produce tokens

_orig_sprintf = base.sprintf


def sprintf_tokens(I, fmt, args):
    ctx = I.ctx
    if ctx.opts.get('dec_tokens') == 'digits' and isinstance(fmt, str):
        r = sprintf_digits(I, fmt, args)
        if r is not None:
            return r
        return _orig_sprintf(I, fmt, args)
    if ctx.opts.get('dec_tokens') and isinstance(fmt, str):
        parts = base._parse_format(fmt)
        if parts is not None:
            res, ai, ok = [], 0, True
            for kind, p in parts:
                if kind == 'lit':
                    res.append(p)
                    continue
                a = args[ai] if ai < len(args) else None
                ai += 1
                val = ctx.force(a.val) if isinstance(a, Iface) else a
                if p == 'd' and is_sym(val) and z3.is_int(val):
                    res.append(dec(ctx, val))
                elif p == '09d' and is_sym(val) and z3.is_int(val):
                    res.append(None)
                    res[-1] = ('pad9', val)
                elif p == 'd' and isinstance(val, int) and not isinstance(val, bool):
                    res.append(str(val))
                else:
                    ok = False
                    break
            if ok:
                out = []
                for i, r in enumerate(res):
                    if isinstance(r, tuple):
                        # ".%09d": the dot belongs to the token
                        if out and isinstance(out[-1], str) and out[-1].endswith('.'):
                            out[-1] = out[-1][:-1]
                            out.append(pad9(ctx, r[1]))
                        else:
                            ok = False
                            break
                    else:
                        out.append(r)
                if ok:
                    out = [o for o in out if not (isinstance(o, str) and o == '')]
                    if all(isinstance(o, str) for o in out):
                        return ''.join(out)
                    zs = [zstr(o) for o in out]
                    return zs[0] if len(zs) == 1 else z3.Concat(*zs)
    return _orig_sprintf(I, fmt, args)


base.sprintf = sprintf_tokens


# ---- strings: TrimRight / Cut on tokens

_orig_trimright = STUBS['strings.TrimRight']


def _trim_atoms(ctx, at, cut, right):
    """Drop atoms from one end while they are in the cutset; a digit atom forks on membership."""
    cd = sorted(int(ch) for ch in set(cut) if ch.isdigit())
    at = list(at)
    while at:
        a = at[-1] if right else at[0]
        if a[0] == 'c':
            if a[1] not in cut:
                break
        elif a[0] == 'dg':
            if not cd or not ctx.branch(z3.Or(*[a[1] == k for k in cd])):
                break
        else:
            raise Inconclusive('trim over an opaque string part')
        if right:
            at.pop()
        else:
            at.pop(0)
    return at


def _digit_atoms(s):
    if not is_sym(s):
        return None
    at = tokens(s)
    if any(a[0] == 'dg' for a in at) and all(a[0] in ('c', 'dg') for a in at):
        return at
    return None


def _trim_digits(name):
    orig = STUBS['strings.' + name]

    def f(I, args, ins):
        s, cut = args
        at = _digit_atoms(s)
        if at is not None and isinstance(cut, str):
            if name in ('TrimRight', 'Trim'):
                at = _trim_atoms(I.ctx, at, cut, True)
            if name in ('TrimLeft', 'Trim'):
                at = _trim_atoms(I.ctx, at, cut, False)
            return untokens(I.ctx, at)
        return orig(I, args, ins)
    return f


for _n in ('TrimLeft', 'Trim'):
    STUBS['strings.' + _n] = _trim_digits(_n)


def _affix_digits(name):
    orig = STUBS.get('strings.' + name)

    def f(I, args, ins):
        s, x = args
        at = _digit_atoms(s)
        if at is not None and isinstance(x, str):
            ctx = I.ctx
            right = name in ('TrimSuffix', 'HasSuffix')
            seg = at[len(at) - len(x):] if right else at[:len(x)]
            ok = len(x) <= len(at)
            conds = []
            if ok:
                for a, ch in zip(seg, x):
                    if a[0] == 'c':
                        if a[1] != ch:
                            ok = False
                            break
                    elif ch.isdigit():
                        conds.append(a[1] == int(ch))
                    else:
                        ok = False
                        break
            hit = ok and (not conds or ctx.branch(z3.And(*conds)))
            if name.startswith('Has'):
                return bool(hit)
            if not hit or not x:
                return s
            return untokens(ctx, at[:len(at) - len(x)] if right else at[len(x):])
        if orig is None:
            raise Inconclusive('strings.%s symbolic' % name)
        return orig(I, args, ins)
    return f


for _n in ('TrimSuffix', 'TrimPrefix', 'HasSuffix', 'HasPrefix'):
    STUBS['strings.' + _n] = _affix_digits(_n)


def trimright_tokens(I, args, ins):
    ctx = I.ctx
    s, cut = args
    at = _digit_atoms(s)
    if at is not None and isinstance(cut, str):
        return untokens(ctx, _trim_atoms(ctx, at, cut, True))
    if is_sym(s) and cut == '0':
        at = tokens(s)
        if len(at) == 1 and at[0][0] == 'pad9':
            n = at[0][1]
            # case split on the number of trailing zeros (n > 0 is established by the caller's branch)
            for tz in range(0, 9):
                p = 10 ** tz
                if ctx.branch(z3.And(n % p == 0, (n / p) % 10 != 0)):
                    return frac(ctx, n, tz)
            # n == 0: everything after the dot is trimmed
            return '.'
    return _orig_trimright(I, args, ins)


STUBS['strings.TrimRight'] = trimright_tokens

_orig_cut = STUBS['strings.Cut']


def cut_tokens(I, args, ins):
    ctx = I.ctx
    s, sep = args
    at = _digit_atoms(s)
    if at is not None and isinstance(sep, str) and len(sep) == 1 and not sep.isdigit():
        for i, a in enumerate(at):
            if a[0] == 'c' and a[1] == sep:
                return TupleV((untokens(ctx, at[:i]), untokens(ctx, at[i + 1:]), True))
        return TupleV((s, '', False))
    if is_sym(s) and sep == '.' and has_tokens(s):
        at = tokens(s)
        for i, a in enumerate(at):
            if a[0] == 'c' and a[1] == '.':
                return TupleV((untokens(ctx, at[:i]), untokens(ctx, at[i + 1:]), True))
            if a[0] == 'frac':
                return TupleV((untokens(ctx, at[:i]), untokens(ctx, [('fracd', a[1], a[2])] + at[i + 1:]), True))
            if a[0] == 'pad9':
                raise Inconclusive('Cut inside an untrimmed fraction')
            if a[0] == 'o':
                raise Inconclusive('Cut over an opaque string')
        return TupleV((s, '', False))
    return _orig_cut(I, args, ins)


STUBS['strings.Cut'] = cut_tokens


# ---- strconv: read tokens back

_orig_atoi = STUBS['strconv.Atoi']


def atoi_tokens(I, args, ins):
    ctx = I.ctx
    s = args[0]
    at = _digit_atoms(s)
    if at is not None:
        from .. import core
        neg = False
        if at[0][0] == 'c' and at[0][1] in '+-':
            neg = at[0][1] == '-'
            at = at[1:]
        if not at or any(a[0] == 'c' and not a[1].isdigit() for a in at):
            return TupleV((0, ctx.new_error('atoi', msg='invalid syntax')))
        n = len(at)
        val = z3.Sum([(zint(int(a[1])) if a[0] == 'c' else a[1]) * (10 ** (n - 1 - i)) for i, a in enumerate(at)]) if n > 1 else (zint(int(at[0][1])) if at[0][0] == 'c' else at[0][1])
        if n >= 19 and not ctx.branch(val < (1 << 63)):
            return TupleV((0, ctx.new_error('atoi', msg='value out of range')))
        val = z3.simplify(val) if n > 1 else val
        core.set_bounds(val, 0, min(10 ** n - 1, (1 << 63) - 1))
        if neg:
            val = -val
            core.set_bounds(val, -min(10 ** n - 1, (1 << 63) - 1), 0)
        return TupleV((val, None))
    if is_sym(s) and has_tokens(s):
        at = tokens(s)
        if len(at) == 1 and at[0][0] == 'dec':
            x = at[0][1]
            if ctx.branch(z3.And(x >= 0, x < (1 << 63))):
                return TupleV((x, None))
            return TupleV((0, ctx.new_error('atoi', msg='value out of range')))
        if len(at) == 1 and at[0][0] == 'fracd':
            return TupleV((at[0][1] / (10 ** at[0][2]), None))
        raise Inconclusive('Atoi over a mixed numeral token string')
    return _orig_atoi(I, args, ins)


STUBS['strconv.Atoi'] = atoi_tokens


@stub('strconv.ParseInt')
def parse_int(I, args, ins):
    """strconv.ParseInt(s, 10 or 0, 64 or 0): same reading of the numeral as Atoi."""
    s, base_, bits = args[0], args[1], args[2]
    if isinstance(base_, int) and base_ in (0, 10) and isinstance(bits, int) and bits in (0, 64):
        if isinstance(s, str) and base_ == 0 and (s.lower().startswith(('0x', '0b', '0o')) or (len(s) > 1 and s[0] == '0') or '_' in s):
            raise Inconclusive('strconv.ParseInt with a base prefix')
        return atoi_tokens(I, [s], ins)
    raise Inconclusive('strconv.ParseInt with base %r bits %r' % (base_, bits))


@stub('strconv.ParseUint')
def parse_uint(I, args, ins):
    s, base_, bits = args[0], args[1], args[2]
    if isinstance(base_, int) and base_ == 10 and isinstance(bits, int) and bits in (0, 64):
        at = _digit_atoms(s)
        if at is not None and at[0][0] == 'c' and at[0][1] in '+-':
            return TupleV((0, I.ctx.new_error('atoi', msg='invalid syntax')))
        if isinstance(s, str) and s[:1] in ('+', '-'):
            return TupleV((0, I.ctx.new_error('atoi', msg='invalid syntax')))
        if at is not None and len(at) >= 19:
            raise Inconclusive('strconv.ParseUint of a numeral that may exceed int64')
        return atoi_tokens(I, [s], ins)
    raise Inconclusive('strconv.ParseUint with base %r bits %r' % (base_, bits))


@stub('strconv.ParseFloat')
def parse_float(I, args, ins):
    """Correctly rounded decimal -> float64 (the documented contract of strconv.ParseFloat)."""
    ctx = I.ctx
    s = args[0]
    if isinstance(s, str):
        try:
            if not re.fullmatch(r'[+-]?(\d+\.?\d*|\.\d+)([eE][+-]?\d+)?', s):
                raise ValueError
            return TupleV((float(s), None))
        except ValueError:
            return TupleV((0.0, ctx.new_error('parsefloat', msg='invalid syntax')))
    at = tokens(s)
    real = None
    da = _digit_atoms(s)
    if da is not None:
        txt = ''.join(a[1] if a[0] == 'c' else '7' for a in da)
        if not re.fullmatch(r'[+-]?(\d+\.?\d*|\.\d+)', txt):
            return TupleV((0.0, ctx.new_error('parsefloat', msg='invalid syntax')))
        neg = txt[0] == '-'
        if txt[0] in '+-':
            da = da[1:]
        dot = next((i for i, a in enumerate(da) if a[0] == 'c' and a[1] == '.'), len(da))
        real = z3.RealVal(0)
        for i, a in enumerate(da):
            if i == dot:
                continue
            dv = z3.ToReal(a[1]) if a[0] == 'dg' else z3.RealVal(int(a[1]))
            e = (dot - 1 - i) if i < dot else (dot - i)
            real = real + (dv * z3.RealVal(10 ** e) if e >= 0 else dv / z3.RealVal(10 ** (-e)))
        if neg:
            real = -real
    elif len(at) >= 1 and at[0][0] == 'dec':
        real = z3.ToReal(at[0][1])
        rest = at[1:]
        if not rest:
            pass
        elif len(rest) == 1 and rest[0][0] == 'frac':
            real = real + z3.ToReal(rest[0][1]) / z3.RealVal(10 ** 9)
        else:
            real = None
    if real is None:
        raise Inconclusive('ParseFloat over an unmodelled numeral')
    return TupleV((z3.fpRealToFP(z3.RNE(), real, z3.Float64()), None))


# ---- the two duration regexps: exact matching over tokens by projection

def _project(at):
    """Project atoms to a concrete string on which the regexps behave as on every instance:
    a numeral token becomes one digit, a fraction token '.' + one digit."""
    chars, owner = [], []
    for i, a in enumerate(at):
        if a[0] == 'c':
            chars.append(a[1])
            owner.append((i, None))
        elif a[0] in ('dec', 'fracd', 'dg'):
            chars.append('7')
            owner.append((i, 'all'))
        elif a[0] in ('frac', 'pad9'):
            chars.append('.')
            owner.append((i, 'dot'))
            chars.append('7')
            owner.append((i, 'digits'))
        else:
            return None, None
    return ''.join(chars), owner


def _span_atoms(at, owner, a, b):
    out = []
    i = a
    while i < b:
        idx, part = owner[i]
        atom = at[idx]
        if part is None or part == 'all':
            out.append(atom)
            i += 1
        elif part == 'dot':
            if i + 1 < b:
                out.append(atom)          # the whole fraction token
                i += 2
            else:
                out.append(('c', '.'))
                i += 1
        else:   # digits without their dot
            out.append(('fracd', atom[1], atom[2]) if atom[0] == 'frac' else ('o', None))
            i += 1
    return out


def duration_regexp(I, method, args):
    ctx = I.ctx
    pat = base._pattern(I, args[0])
    s = args[1]
    at = tokens(s)
    proj, owner = _project(at)
    if proj is None:
        raise Inconclusive('duration regexp over an opaque string')
    m = re.compile(pat).search(proj)
    if method == 'MatchString':
        return m is not None
    if m is None:
        return NIL_SLICE
    groups = [untokens(ctx, _span_atoms(at, owner, m.start(0), m.end(0)))]
    for g in range(1, m.re.groups + 1):
        if m.group(g) is None:
            groups.append('')
        else:
            groups.append(untokens(ctx, _span_atoms(at, owner, m.start(g), m.end(g))))
    return I.make_slice(groups)


base.REGEXP_CONTRACTS[r'^(-?)P(?:(\d+)Y)?(?:(\d+)M)?(?:(\d+)D)?(?:T(.+))?$'] = duration_regexp
base.REGEXP_CONTRACTS[r'^(?:(\d+)H)?(?:(\d+)M)?(?:(\d+(?:\.\d+)?)S)?$'] = duration_regexp


def _digit_uniform(pat):
    """A pattern that cannot tell one decimal digit from another (no digit literals or digit ranges outside
    \\d and counted repetitions): on a string of literal characters and one-character digit tokens it matches
    exactly as on the projection that writes 7 for every digit."""
    rest = re.sub(r'\\[dDwWsSbB]|\{\d+(,\d*)?\}', '', pat)
    rest = re.sub(r'\\.', '', rest)
    return not re.search(r'[0-9]', rest) and not re.search(r'\[[^\]]*[!-/:-~]-[!-~]', rest) and '[^' not in rest


def _digit_regexp_fallback(pat, s):
    if _digit_atoms(s) is not None and _digit_uniform(pat):
        return duration_regexp
    return None


base.REGEXP_FALLBACKS.append(_digit_regexp_fallback)


def token_length(t):
    """Concrete length of a string term made of literal text and fixed-width tokens, else None."""
    n = 0
    for a in tokens(t):
        if a[0] in ('c', 'dg'):
            n += 1
        elif a[0] == 'pad9':
            n += 10
        elif a[0] == 'frac':
            n += 10 - a[2]
        elif a[0] == 'fracd':
            n += 9 - a[2]
        else:
            return None
    return n


def token_nonempty(t):
    return any(a[0] in ('c', 'dec', 'pad9', 'frac', 'fracd', 'dg') for a in tokens(t))


from .. import core as _core
_core.TOKEN_HOOKS['length'] = token_length
_core.TOKEN_HOOKS['nonempty'] = token_nonempty
_core.TOKEN_HOOKS['has'] = has_tokens


def install(prog):
    pass
