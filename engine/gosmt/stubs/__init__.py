"""Boundary table: intrinsics, contract stubs, monitors (DESIGN.md section 3)."""


def install(prog):
    from . import base      # noqa
    from . import xmlstubs  # noqa
    from . import cryptostubs  # noqa
    from . import httpstubs  # noqa
    from . import docstubs  # noqa
    from . import jwtstubs  # noqa
    from . import ropestubs  # noqa
    from .. import conc  # noqa
    for m in (base, xmlstubs, cryptostubs, httpstubs, docstubs, jwtstubs, ropestubs):
        if hasattr(m, 'install'):
            m.install(prog)
