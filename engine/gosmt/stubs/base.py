"""Intrinsics: errors, fmt, strings, strconv, time, bytes, sync, sort, io, log."""
import z3
from ..core import (STUBS, INVOKE_STUBS, FRESH_HOOKS, LAZY_HOOKS, IFACE_CANDS, OPAQUE_IMPLEMENTS, stub, GoPanic,
                    Inconclusive, PathEnd, zint, zstr, zbool, b_and, b_or, b_not, b_ite, wrap, is_sym)
from ..values import *

UNIX_TO_INTERNAL = 62135596800 * 1000000000   # ns between year 1 and 1970
NS = 1000000000

# ------------------------------------------------------------------ errors


@stub('errors.New')
def errors_new(I, args, ins):
    cell = I.ctx.new_cell(StructV([args[0]]), 'errorString')
    return Iface('*errors.errorString', Ptr(cell))


def _err_msg(I, recv, args, ins):
    return I.ctx.load(recv)[0]


INVOKE_STUBS[('*errors.errorString', 'Error')] = _err_msg
INVOKE_STUBS[('*verif.error', 'Error')] = _err_msg
OPAQUE_IMPLEMENTS['*errors.errorString'] = {'error'}


def _unwrap1(I, e):
    e = I.ctx.force(e)
    if isinstance(e, Iface) and e.dyn == '*verif.error':
        return I.ctx.force(I.ctx.load(e.val)[1])
    return None


@stub('errors.Unwrap')
def errors_unwrap(I, args, ins):
    return _unwrap1(I, args[0])


@stub('errors.Is')
def errors_is(I, args, ins):
    e, target = I.ctx.force(args[0]), I.ctx.force(args[1])
    n = 0
    while e is not None and n < 10:
        c = I.eq(e, target)
        if I.ctx.branch(c):
            return True
        e = _unwrap1(I, e)
        n += 1
    return False


@stub('errors.As')
def errors_as(I, args, ins):
    ctx = I.ctx
    e = ctx.force(args[0])
    tgt = ctx.force(args[1])       # interface{} holding *T
    if not isinstance(tgt, Iface):
        raise Inconclusive('errors.As target')
    want = I.prog.elem(tgt.dyn)
    n = 0
    while e is not None and n < 10:
        if isinstance(e, Iface):
            ok = (e.dyn == want) if I.prog.kind(want) != 'iface' else True
            if ok:
                ctx.store_(tgt.val, e.val if I.prog.kind(want) != 'iface' else e)
                return True
        e = _unwrap1(I, e)
        n += 1
    return False


# ------------------------------------------------------------------ fmt

def _fmt_args(I, sl):
    return [I.ctx.force(a) for a in I.slice_elems(sl)]


def _parse_format(f):
    """Returns list of ('lit', s) / ('verb', spec) or None if unsupported."""
    out = []
    i = 0
    lit = ''
    while i < len(f):
        c = f[i]
        if c != '%':
            lit += c
            i += 1
            continue
        j = i + 1
        while j < len(f) and f[j] in '0123456789+-# .':
            j += 1
        if j >= len(f):
            return None
        if f[j] == '%':
            lit += '%'
            i = j + 1
            continue
        if lit:
            out.append(('lit', lit))
            lit = ''
        out.append(('verb', f[i + 1:j + 1]))
        i = j + 1
    if lit:
        out.append(('lit', lit))
    return out


def int_to_str(v):
    if not is_sym(v):
        return str(v)
    return z3.If(v >= 0, z3.IntToStr(v), z3.Concat(z3.StringVal('-'), z3.IntToStr(-v)))


def hex_of_bytes(I, elems, tag='hex'):
    ctx = I.ctx
    if all(isinstance(e, int) for e in elems):
        return ''.join('%02x' % e for e in elems)
    key = tuple(str(e) for e in elems)
    cache = ctx.ghost.setdefault('hexcache', {})
    if key in cache:
        return cache[key]
    s = ctx.fresh_str(tag)
    ctx.add_inv(z3.Length(s) == 2 * len(elems))
    ctx.ghost.setdefault('hex', {})[str(s)] = list(elems)
    cache[key] = s
    return s


def _go_format_concrete(I, parts, args):
    """Formatting when every argument is a concrete int / string / bool (the common fmt verbs)."""
    out, ai = [], 0
    for kind, p in parts:
        if kind == 'lit':
            out.append(p)
            continue
        if ai >= len(args):
            return None
        a = args[ai]
        ai += 1
        val = a.val if isinstance(a, Iface) else a
        val = I.ctx.force(val)
        verb, flags = p[-1], p[:-1]
        if isinstance(val, bool):
            if verb in 'tv' and flags == '':
                out.append('true' if val else 'false')
                continue
            return None
        if isinstance(val, int):
            if verb in 'dv' and (flags == '' or (flags.startswith('0') and flags[1:].isdigit()) or flags.isdigit()):
                out.append(('%' + flags + 'd') % val)
                continue
            if verb in 'xX' and (flags == '' or (flags.startswith('0') and flags[1:].isdigit())) and val >= 0:
                out.append(('%' + flags + verb) % val)
                continue
            return None
        if isinstance(val, str):
            if verb in 'sv' and flags == '':
                out.append(val)
                continue
            if verb == 'q' and flags == '' and all(32 <= ord(c) < 127 and c not in '"\\' for c in val):
                out.append('"' + val + '"')
                continue
            return None
        return None
    return ''.join(out)


def sprintf(I, fmt, args):
    ctx = I.ctx
    if not isinstance(fmt, str):
        return None
    parts = _parse_format(fmt)
    if parts is None:
        return None
    r0 = _go_format_concrete(I, parts, args)
    if r0 is not None:
        return r0
    res = []
    ai = 0
    for kind, p in parts:
        if kind == 'lit':
            res.append(p)
            continue
        if ai >= len(args):
            return None
        a = args[ai]
        ai += 1
        verb = p[-1]
        flags = p[:-1]
        val = a.val if isinstance(a, Iface) else a
        dyn = a.dyn if isinstance(a, Iface) else None
        val = ctx.force(val)
        if verb in 'sv' and flags == '' and (isinstance(val, str) or (is_sym(val) and z3.is_string(val))):
            res.append(val)
        elif verb in 'dv' and dyn is not None and dyn in I.prog.types and I.prog.kind(dyn) == 'int' and not isinstance(val, bool) and (isinstance(val, int) or z3.is_int(val)):
            if flags == '':
                res.append(int_to_str(val))
            elif flags.startswith('0') and flags[1:].isdigit():
                w = int(flags[1:])
                if is_sym(val):
                    s = z3.IntToStr(val)
                    # zero padded non-negative number of width w (callers pass non-negative values)
                    pad = ctx.fresh_str('pad')
                    ctx.add_inv(z3.InRe(pad, z3.Star(z3.Re('0'))))
                    ctx.add_inv(z3.If(z3.Length(s) >= w, z3.Length(pad) == 0, z3.Length(pad) == w - z3.Length(s)))
                    res.append(z3.Concat(pad, s))
                else:
                    res.append(('%0' + str(w) + 'd') % val)
            else:
                return None
        elif verb == 'x' and flags == '' and isinstance(val, Slice):
            res.append(hex_of_bytes(I, I.slice_elems(val)))
        elif verb == 'x' and flags == '' and isinstance(val, tuple) and not isinstance(val, StructV):
            res.append(hex_of_bytes(I, list(val)))
        elif verb in 'sv' and isinstance(val, Ptr) and dyn in ('*errors.errorString', '*verif.error'):
            res.append(ctx.load(val)[0])
        else:
            return None
    if not res:
        return ''
    if all(isinstance(r, str) for r in res):
        return ''.join(res)
    zs = [zstr(r) for r in res]
    return z3.Concat(*zs) if len(zs) > 1 else zs[0]


@stub('fmt.Sprintf')
def fmt_sprintf(I, args, ins):
    fargs = _fmt_args(I, args[1])
    r = globals()['sprintf'](I, args[0], fargs)
    if r is None:
        r = I.ctx.fresh_str('sprintf')
        I.ctx.ghost.setdefault('sprintf', []).append((args[0], fargs, r))
    return r


@stub('fmt.Errorf')
def fmt_errorf(I, args, ins):
    ctx = I.ctx
    fargs = _fmt_args(I, args[1])
    wrapped = None
    f = args[0]
    if isinstance(f, str) and '%w' in f:
        parts = _parse_format(f) or []
        ai = 0
        for kind, p in parts:
            if kind == 'verb':
                if p.endswith('w') and ai < len(fargs):
                    wrapped = fargs[ai]
                ai += 1
    msg = sprintf(I, f, fargs) if isinstance(f, str) and '%w' not in f else None
    return ctx.new_error('errorf@' + ctx.cur_pos, msg=msg, wrapped=wrapped)


@stub('fmt.Sprint', 'fmt.Sprintln')
def fmt_sprint(I, args, ins):
    return I.ctx.fresh_str('sprint')


@stub('fmt.Fprintf')
def fmt_fprintf(I, args, ins):
    ctx = I.ctx
    w = ctx.force(args[0])
    fargs = _fmt_args(I, args[2])
    s = globals()['sprintf'](I, args[1], fargs)
    if s is None:
        s = ctx.fresh_str('fprintf')
    if isinstance(w, Iface) and w.dyn in ('*bytes.Buffer', '*strings.Builder'):
        _buf(I, w.val).append(s)
        return TupleV((I.length(s), None))
    if isinstance(w, Iface):
        try:
            bs = I.make_slice(I.string_bytes(s)) if isinstance(s, str) else SymBytes(s)
            r = I.invoke(w, 'Write', [bs], ins)
            return TupleV((r[0], r[1]))
        except Inconclusive:
            pass
    return TupleV((0, None))


@stub('fmt.Fprintln', 'fmt.Fprint')
def fmt_fprint(I, args, ins):
    return TupleV((0, None))


@stub('fmt.Printf', 'fmt.Println', 'fmt.Print')
def fmt_printf(I, args, ins):
    return TupleV((0, None))


# ------------------------------------------------------------------ strings / strconv

@stub('strings.HasPrefix', 'bytes.HasPrefix')
def strings_hasprefix(I, args, ins):
    s, p = args
    if isinstance(s, str) and isinstance(p, str):
        return s.startswith(p)
    return z3.PrefixOf(zstr(p), zstr(s))


@stub('strings.HasSuffix')
def strings_hassuffix(I, args, ins):
    s, p = args
    if isinstance(s, str) and isinstance(p, str):
        return s.endswith(p)
    return z3.SuffixOf(zstr(p), zstr(s))


@stub('strings.Contains')
def strings_contains(I, args, ins):
    s, p = args
    if isinstance(s, str) and isinstance(p, str):
        return p in s
    if isinstance(p, str) and len(p) == 1 and p in '#&=;?':
        # structural: only concrete text and raw symbolic bytes can contribute a reserved character;
        # escaped texts and base64/hex texts cannot
        from .httpstubs import _atoms
        conds = []
        for a in _atoms(s):
            if a[0] == 'c' and a[1] == p:
                return True
            if a[0] == 'b' or (a[0] == 'pescb' and p in '&='):
                conds.append(a[1] == ord(p))
            if a[0] == 'pesc':
                raise Inconclusive('Contains over a path-escaped opaque string')
            if a[0] == 'o':
                t = str(a[1])
                g = I.ctx.ghost
                if t in g.get('string_tag', {}) or t in g.get('b64dec', {}) or t in g.get('hex', {}):
                    continue
                conds.append(z3.Contains(a[1], z3.StringVal(p)))
        return b_or(*conds) if conds else False
    return z3.Contains(zstr(s), zstr(p))


@stub('strings.Index')
def strings_index(I, args, ins):
    s, p = args
    if isinstance(s, str) and isinstance(p, str):
        return s.find(p)
    return z3.IndexOf(zstr(s), zstr(p), 0)


@stub('strings.TrimPrefix')
def strings_trimprefix(I, args, ins):
    s, p = args
    if isinstance(s, str) and isinstance(p, str):
        return s[len(p):] if s.startswith(p) else s
    zs, zp = zstr(s), zstr(p)
    return z3.If(z3.PrefixOf(zp, zs), z3.SubString(zs, z3.Length(zp), z3.Length(zs) - z3.Length(zp)), zs)


@stub('strings.TrimSuffix')
def strings_trimsuffix(I, args, ins):
    s, p = args
    if isinstance(s, str) and isinstance(p, str):
        return s[:len(s) - len(p)] if p and s.endswith(p) else s
    zs, zp = zstr(s), zstr(p)
    return z3.If(z3.SuffixOf(zp, zs), z3.SubString(zs, 0, z3.Length(zs) - z3.Length(zp)), zs)


@stub('strings.EqualFold')
def strings_equalfold(I, args, ins):
    s, p = args
    if isinstance(s, str) and isinstance(p, str):
        return s.lower() == p.lower()
    # Three path classes, each with real strings in it so that witnesses replay natively: equal strings; strings
    # that differ exactly in the letter case of their first byte; strings that are certainly not fold-equal
    # (different lengths, or first bytes that are not case variants of each other). The classes do not cover
    # every pair (an under-approximation of the paths through code that folds case; the pinned tree has none).
    ctx = I.ctx
    zs, zp = zstr(s), zstr(p)
    if ctx.branch(zs == zp):
        return True
    t = ctx.fresh_str('equalfold.rest')
    if ctx.branch(z3.Or(z3.And(zs == z3.Concat(z3.StringVal('A'), t), zp == z3.Concat(z3.StringVal('a'), t)),
                        z3.And(zs == z3.Concat(z3.StringVal('a'), t), zp == z3.Concat(z3.StringVal('A'), t)))):
        return True
    a, b = z3.StrToCode(z3.SubString(zs, 0, 1)), z3.StrToCode(z3.SubString(zp, 0, 1))

    def fold(c):
        return z3.If(z3.And(c >= 65, c <= 90), c + 32, c)
    ctx.assume(z3.Or(z3.Length(zs) != z3.Length(zp), z3.And(a >= 0, b >= 0, a < 128, b < 128, fold(a) != fold(b))))
    return False


@stub('strings.ToLower', 'strings.ToUpper', 'strings.TrimSpace', 'strings.Title')
def strings_map(I, args, ins):
    s = args[0]
    name = ins['call']['fn']['n'].split('.')[-1]
    if isinstance(s, str):
        return {'ToLower': s.lower, 'ToUpper': s.upper, 'TrimSpace': lambda: s.strip(' \t\n\r\v\f'), 'Title': s.title}[name]()
    if name == 'TrimSpace' and (str(s) in I.ctx.ghost.get('b64dec', {}) or str(s) in I.ctx.ghost.get('string_tag', {})):
        return s      # base64 text has no white space
    f = z3.Function('strings.' + name, z3.StringSort(), z3.StringSort())
    return f(s)


@stub('strings.Join')
def strings_join(I, args, ins):
    el = I.slice_elems(args[0])
    sep = args[1]
    if not el:
        return ''
    if all(isinstance(e, str) for e in el) and isinstance(sep, str):
        return sep.join(el)
    parts = []
    for i, e in enumerate(el):
        if i:
            parts.append(zstr(sep))
        parts.append(zstr(e))
    return z3.Concat(*parts) if len(parts) > 1 else parts[0]


@stub('strings.Split')
def strings_split(I, args, ins):
    s, sep = args
    if isinstance(s, str) and isinstance(sep, str) and sep:
        return I.make_slice(s.split(sep))
    raise Inconclusive('strings.Split symbolic')


@stub('strings.Replace', 'strings.ReplaceAll')
def strings_replace(I, args, ins):
    s, old, new = args[0], args[1], args[2]
    if isinstance(s, str) and isinstance(old, str) and isinstance(new, str):
        return s.replace(old, new)
    if ins['call']['fn']['n'].endswith('ReplaceAll') or (len(args) > 3 and isinstance(args[3], int) and args[3] < 0):
        from .httpstubs import rope_replace_all
        r = rope_replace_all(I, s, old, new)
        if r is not NotImplemented:
            return r
    f = z3.Function('strings.ReplaceAll', z3.StringSort(), z3.StringSort(), z3.StringSort(), z3.StringSort())
    return f(zstr(s), zstr(old), zstr(new))


@stub('strconv.Itoa')
def strconv_itoa(I, args, ins):
    from_int = args[0]
    return int_to_str(from_int)


@stub('strconv.Atoi')
def strconv_atoi(I, args, ins):
    s = args[0]
    ctx = I.ctx
    if isinstance(s, str):
        try:
            if s.strip() != s or s == '' or not (s.lstrip('+-').isdigit() and s.isascii()):
                raise ValueError
            v = int(s)
            if not (-(1 << 63) <= v < (1 << 63)):
                raise ValueError
            return TupleV((v, None))
        except ValueError:
            return TupleV((0, ctx.new_error('atoi', msg='strconv.Atoi: parsing error')))
    # symbolic: digits only (optionally signed) within int64
    v = z3.StrToInt(s)                       # -1 unless all digits
    neg = z3.PrefixOf(z3.StringVal('-'), s)
    rest = z3.SubString(s, 1, z3.Length(s) - 1)
    vneg = z3.StrToInt(rest)
    ok_pos = z3.And(v >= 0, v < (1 << 63))
    ok_neg = z3.And(neg, vneg >= 0, vneg <= (1 << 63))
    plus = z3.PrefixOf(z3.StringVal('+'), s)
    ok_plus = z3.And(plus, vneg >= 0, vneg < (1 << 63))
    if ctx.branch(ok_pos):
        return TupleV((v, None))
    if ctx.branch(ok_neg):
        return TupleV((-vneg, None))
    if ctx.branch(ok_plus):
        return TupleV((vneg, None))
    return TupleV((0, ctx.new_error('atoi', msg='strconv.Atoi: parsing error')))


@stub('strconv.FormatBool')
def strconv_formatbool(I, args, ins):
    b = args[0]
    if isinstance(b, bool):
        return 'true' if b else 'false'
    return z3.If(b, z3.StringVal('true'), z3.StringVal('false'))


@stub('strconv.ParseBool')
def strconv_parsebool(I, args, ins):
    s = args[0]
    ctx = I.ctx
    T = ('1', 't', 'T', 'TRUE', 'true', 'True')
    F = ('0', 'f', 'F', 'FALSE', 'false', 'False')
    if isinstance(s, str):
        if s in T:
            return TupleV((True, None))
        if s in F:
            return TupleV((False, None))
        return TupleV((False, ctx.new_error('parsebool')))
    if ctx.branch(z3.Or(*[s == z3.StringVal(x) for x in T])):
        return TupleV((True, None))
    if ctx.branch(z3.Or(*[s == z3.StringVal(x) for x in F])):
        return TupleV((False, None))
    return TupleV((False, ctx.new_error('parsebool')))


# ------------------------------------------------------------------ time

def _t(v):
    if isinstance(v, TimeV):
        return v.ns
    raise Inconclusive('expected time value, got %r' % (v,))


@stub('time.Now')
def time_now(I, args, ins):
    ctx = I.ctx
    name = ctx.uname('time.Now')
    v = z3.Int(name)
    ctx.add_inv(v >= 0)
    ctx.nondets.append((name, 'time', v))
    # wall clock is monotone
    last = ctx.ghost.get('wallclock')
    if last is not None:
        ctx.add_inv(v >= last)
        # the whole harness runs within a second of wall-clock time
        ctx.add_inv(v <= ctx.ghost['wallclock0'] + NS)
    else:
        ctx.ghost['wallclock0'] = v
        ctx.add_inv(v >= UNIX_TO_INTERNAL)
    ctx.ghost['wallclock'] = v
    return TimeV(v)


@stub('(time.Time).Add')
def time_add(I, args, ins):
    return TimeV(_t(args[0]) + args[1])


@stub('(time.Time).Sub')
def time_sub(I, args, ins):
    d = _t(args[0]) - _t(args[1])
    # saturating to int64 as the library does
    mx, mn = (1 << 63) - 1, -(1 << 63)
    if is_sym(d):
        return z3.If(d > mx, mx, z3.If(d < mn, mn, d))
    return max(mn, min(mx, d))


@stub('(time.Time).Before')
def time_before(I, args, ins):
    return I.lt(_t(args[0]), _t(args[1]))


@stub('(time.Time).After')
def time_after(I, args, ins):
    return I.lt(_t(args[1]), _t(args[0]))


@stub('(time.Time).Equal')
def time_equal(I, args, ins):
    return I.eq(_t(args[0]), _t(args[1]))


@stub('(time.Time).Compare')
def time_compare(I, args, ins):
    a, b = _t(args[0]), _t(args[1])
    return b_ite(I.lt(a, b), -1, b_ite(I.lt(b, a), 1, 0))


@stub('(time.Time).IsZero')
def time_iszero(I, args, ins):
    return I.eq(_t(args[0]), 0)


@stub('(time.Time).UTC', '(time.Time).Local', '(time.Time).In')
def time_utc(I, args, ins):
    return args[0]


@stub('(time.Time).Round', '(time.Time).Truncate')
def time_round(I, args, ins):
    ns, d = _t(args[0]), args[1]
    name = ins['call']['fn']['n']
    if is_sym(d):
        raise Inconclusive('Round with symbolic duration')
    if d <= 0:
        return args[0]
    if name.endswith('Truncate'):
        return TimeV(ns - (ns % d))
    r = ns % d
    # Round: halfway values round up
    if is_sym(r):
        return TimeV(z3.If(r + r < d, ns - r, ns + (d - r)))
    return TimeV(ns - r if r + r < d else ns + (d - r))


@stub('(time.Time).Unix')
def time_unix(I, args, ins):
    ns = _t(args[0])
    v = (ns - UNIX_TO_INTERNAL)
    return v / NS if is_sym(v) else v // NS


@stub('(time.Time).UnixNano')
def time_unixnano(I, args, ins):
    return wrap(_t(args[0]) - UNIX_TO_INTERNAL, 64, True)


@stub('time.Unix')
def time_unix_ctor(I, args, ins):
    sec, nsec = args
    return TimeV(sec * NS + nsec + UNIX_TO_INTERNAL)


@stub('time.Since')
def time_since(I, args, ins):
    now = time_now(I, [], ins)
    return time_sub(I, [now, args[0]], ins)


@stub('(time.Time).Format', '(time.Time).String')
def time_format(I, args, ins):
    ns = _t(args[0])
    f = z3.Function('time.Format', z3.IntSort(), z3.StringSort())
    return f(zint(ns))


@stub('(time.Duration).String')
def duration_string(I, args, ins):
    f = z3.Function('Duration.String', z3.IntSort(), z3.StringSort())
    return f(zint(args[0]))


@stub('(time.Duration).Seconds', '(time.Duration).Minutes', '(time.Duration).Hours')
def duration_float(I, args, ins):
    d = args[0]
    name = ins['call']['fn']['n']
    unit = 1e9 if name.endswith('Seconds') else 6e10 if name.endswith('Minutes') else 3.6e12
    if is_sym(d):
        raise Inconclusive('float accessor of a symbolic duration')
    return d / unit


@stub('time.Sleep')
def time_sleep(I, args, ins):
    return None


# ------------------------------------------------------------------ bytes.Buffer / readers (ghost content)

def _buf(I, p):
    ctx = I.ctx
    p = ctx.force(p)
    if p is None:
        raise GoPanic('nil-deref', ctx.cur_pos)
    key = (p.cell, p.path)
    return ctx.ghost.setdefault('buffers', {}).setdefault(key, [])


def _buf_set(I, p, content):
    ctx = I.ctx
    p = ctx.force(p)
    ctx.ghost.setdefault('buffers', {})[(p.cell, p.path)] = content


def buffer_string(I, parts):
    """parts: list of python str / z3 strings / ('bytes', [elems])."""
    out = []
    for p in parts:
        if isinstance(p, tuple) and p and p[0] == 'bytes':
            out.append(I.bytes_string(p[1]))
        else:
            out.append(p)
    out = [o for o in out if not (isinstance(o, str) and o == '')]
    if not out:
        return ''
    if all(isinstance(o, str) for o in out):
        return ''.join(out)
    zs = [zstr(o) for o in out]
    return z3.Concat(*zs) if len(zs) > 1 else zs[0]


@stub('(*bytes.Buffer).Write')
def buffer_write(I, args, ins):
    b = _buf(I, args[0])
    el = I.slice_elems(args[1])
    b.append(('bytes', el))
    return TupleV((len(el), None))


@stub('(*bytes.Buffer).WriteString', '(*strings.Builder).WriteString')
def buffer_writestring(I, args, ins):
    b = _buf(I, args[0])
    b.append(args[1])
    return TupleV((I.length(args[1]), None))


@stub('(*bytes.Buffer).WriteByte', '(*strings.Builder).WriteByte')
def buffer_writebyte(I, args, ins):
    b = _buf(I, args[0])
    b.append(('bytes', [args[1]]))
    return None


@stub('(*bytes.Buffer).String', '(*strings.Builder).String')
def buffer_str(I, args, ins):
    p = I.ctx.force(args[0])
    if p is None:
        return '<nil>'
    return buffer_string(I, _buf(I, p))


@stub('(*bytes.Buffer).Bytes')
def buffer_bytes(I, args, ins):
    parts = _buf(I, args[0])
    if all(isinstance(x, tuple) and x and x[0] == 'bytes' for x in parts):
        elems = [e for x in parts for e in x[1]]
        return I.make_slice(elems) if elems else NIL_SLICE
    s = buffer_string(I, parts)
    bs = I.string_bytes(s) if not isinstance(s, str) else [ord(c) for c in s]
    return I.make_slice(bs)


@stub('(*bytes.Buffer).Len', '(*strings.Builder).Len')
def buffer_len(I, args, ins):
    return I.length(buffer_string(I, _buf(I, args[0])))


@stub('(*bytes.Buffer).Reset', '(*strings.Builder).Reset')
def buffer_reset(I, args, ins):
    _buf_set(I, args[0], [])
    return None


@stub('bytes.NewReader')
def bytes_newreader(I, args, ins):
    ctx = I.ctx
    p = ctx.alloc(StructV([]), 'bytes.Reader')
    ctx.ghost.setdefault('readers', {})[p.cell] = ('bytes', ctx.force(args[0]))
    return p


@stub('bytes.NewBuffer')
def bytes_newbuffer(I, args, ins):
    ctx = I.ctx
    p = ctx.alloc(I.prog.zero('bytes.Buffer') if 'bytes.Buffer' in I.prog.types else StructV([]), 'bytes.Buffer')
    ctx.ghost.setdefault('buffers', {})[(p.cell, p.path)] = [('bytes', I.slice_elems(args[0]))]
    ctx.ghost.setdefault('readers', {})[p.cell] = ('buffer', p)
    return p


@stub('bytes.NewBufferString')
def bytes_newbufferstring(I, args, ins):
    ctx = I.ctx
    p = ctx.alloc(I.prog.zero('bytes.Buffer') if 'bytes.Buffer' in I.prog.types else StructV([]), 'bytes.Buffer')
    ctx.ghost.setdefault('buffers', {})[(p.cell, p.path)] = [args[0]]
    return p


@stub('strings.NewReader')
def strings_newreader(I, args, ins):
    ctx = I.ctx
    p = ctx.alloc(StructV([]), 'strings.Reader')
    ctx.ghost.setdefault('readers', {})[p.cell] = ('string', args[0])
    return p


def reader_content(I, r):
    """Returns ('bytes', Slice) / ('string', s) / ('opaque', tag) for an io.Reader value."""
    ctx = I.ctx
    r = ctx.force(r)
    if isinstance(r, Iface):
        r = ctx.force(r.val)
    if isinstance(r, Ptr):
        g = ctx.ghost.get('readers', {}).get(r.cell)
        if g is not None:
            if g[0] == 'buffer':
                parts = _buf(I, g[1])
                if parts and all(isinstance(x, tuple) and x and x[0] == 'bytes' for x in parts):
                    elems = [e for x in parts for e in x[1]]
                    return ('bytes', I.make_slice(elems) if elems else NIL_SLICE)
                return ('string', buffer_string(I, parts))
            return g
        b = ctx.ghost.get('buffers', {}).get((r.cell, r.path))
        if b is not None:
            return ('string', buffer_string(I, b))
    return ('opaque', r)


@stub('bytes.Equal')
def bytes_equal(I, args, ins):
    x, y = I.ctx.force(args[0]), I.ctx.force(args[1])
    if isinstance(x, SymBytes) or isinstance(y, SymBytes):
        sx = x.s if isinstance(x, SymBytes) else I.bytes_string(I.slice_elems(x))
        sy = y.s if isinstance(y, SymBytes) else I.bytes_string(I.slice_elems(y))
        return I.eq(sx, sy)
    a, b = I.slice_elems(args[0]), I.slice_elems(args[1])
    if len(a) != len(b):
        return False
    return b_and(*[I.eq(x, y) for x, y in zip(a, b)])


@stub('crypto/subtle.ConstantTimeCompare')
def subtle_ctc(I, args, ins):
    r = bytes_equal(I, args, ins)
    return b_ite(r, 1, 0)


# ------------------------------------------------------------------ sync (events for the interleaving model)

def _lock_event(kind):
    def f(I, args, ins):
        ctx = I.ctx
        p = ctx.force(args[0])
        if p is None:
            raise GoPanic('nil-deref', ctx.cur_pos)
        ctx.event('lock', kind, (p.cell, p.path), ctx.cur_pos)
        return None
    return f


for _n, _k in (('(*sync.RWMutex).Lock', 'Lock'), ('(*sync.RWMutex).Unlock', 'Unlock'),
               ('(*sync.RWMutex).RLock', 'RLock'), ('(*sync.RWMutex).RUnlock', 'RUnlock'),
               ('(*sync.Mutex).Lock', 'Lock'), ('(*sync.Mutex).Unlock', 'Unlock')):
    STUBS[_n] = _lock_event(_k)


@stub('(*sync.Once).Do')
def once_do(I, args, ins):
    ctx = I.ctx
    p = ctx.force(args[0])
    done = ctx.ghost.setdefault('once', set())
    k = (p.cell, p.path)
    if k in done:
        return None
    done.add(k)
    return I.call_value(args[1], [], ins)


# ------------------------------------------------------------------ sort

@stub('sort.Strings')
def sort_strings(I, args, ins):
    s = I.ctx.force(args[0])
    el = I.slice_elems(s)
    if all(isinstance(e, str) for e in el):
        el = sorted(el, key=lambda x: x.encode('latin-1'))
        arr = list(I.ctx.load(s.base))
        arr[s.off:s.off + s.len] = el
        I.ctx.store_(s.base, tuple(arr))
        return None
    if len(el) <= 1:
        return None
    raise Inconclusive('sort.Strings symbolic')


# ------------------------------------------------------------------ io

@stub('io.ReadAll', 'io/ioutil.ReadAll')
def io_readall(I, args, ins):
    ctx = I.ctx
    kind, c = reader_content(I, args[0])
    if kind == 'bytes':
        return TupleV((c, None))
    if kind == 'string':
        bs = I.string_bytes(c) if not isinstance(c, str) else [ord(x) for x in c]
        return TupleV((I.make_slice(bs), None))
    h = READALL_HOOKS
    for f in h:
        r = f(I, c, ins)
        if r is not None:
            return r
    if ctx.choose(2, 'readall-err') == 1:
        return TupleV((NIL_SLICE, ctx.new_error('readall')))
    return TupleV((ctx.fresh('[]byte', 'readall'), None))


READALL_HOOKS = []


@stub('io.ReadFull')
def io_readfull(I, args, ins):
    """io.ReadFull(r, buf): calls r.Read on the unfilled rest until the buffer is full or Read fails."""
    from ..core import Unwind
    ctx = I.ctx
    r = ctx.force(args[0])
    buf = ctx.force(args[1])
    if is_sym(buf.len):
        raise Inconclusive('io.ReadFull into a buffer of symbolic length')
    filled = 0
    for _ in range(64):
        if filled >= buf.len:
            return TupleV((filled, None))
        rest = Slice(buf.base, buf.off + filled, buf.len - filled, buf.cap - filled)
        res = I.invoke(r, 'Read', [rest], ins)
        n, err = res[0], ctx.force(res[1])
        if is_sym(n):
            n = ctx.concretize(n, 0, buf.len - filled, 'readfull.n')
        filled += n
        if err is not None:
            if filled >= buf.len:
                return TupleV((filled, None))
            return TupleV((filled, err))
    raise Unwind('io.ReadFull: reader keeps returning short reads')


# ------------------------------------------------------------------ unicode / misc

@stub('unicode/utf8.ValidString')
def utf8_valid(I, args, ins):
    s = args[0]
    if isinstance(s, str):
        try:
            s.encode('latin-1').decode('utf-8')
            return True
        except UnicodeDecodeError:
            return False
    f = z3.Function('utf8.ValidString', z3.StringSort(), z3.BoolSort())
    return f(s)


@stub('os.Getenv')
def os_getenv(I, args, ins):
    return ''


def install(prog):
    pass


# ------------------------------------------------------------------ more strings intrinsics

def _b(s):
    return s.encode('latin-1')


def _s(b):
    return b.decode('latin-1')


def _conc(*xs):
    return all(isinstance(x, (str, int)) and not isinstance(x, bool) or isinstance(x, bool) for x in xs)


@stub('strings.IndexByte')
def strings_indexbyte(I, args, ins):
    s, c = args
    if _conc(s, c):
        return s.find(chr(c))
    return z3.IndexOf(zstr(s), z3.StrFromCode(zint(c)), 0)


@stub('strings.IndexRune')
def strings_indexrune(I, args, ins):
    s, c = args
    if _conc(s, c):
        return _b(s).find(chr(c).encode('utf-8'))
    raise Inconclusive('strings.IndexRune symbolic')


@stub('strings.LastIndex')
def strings_lastindex(I, args, ins):
    s, p = args
    if _conc(s, p):
        return s.rfind(p)
    return z3.LastIndexOf(zstr(s), zstr(p))


@stub('strings.LastIndexByte')
def strings_lastindexbyte(I, args, ins):
    s, c = args
    if _conc(s, c):
        return s.rfind(chr(c))
    return z3.LastIndexOf(zstr(s), z3.StrFromCode(zint(c)))


@stub('strings.IndexAny')
def strings_indexany(I, args, ins):
    s, chars = args
    if _conc(s, chars):
        idx = [s.find(c) for c in chars if s.find(c) >= 0]
        return min(idx) if idx else -1
    raise Inconclusive('strings.IndexAny symbolic')


@stub('strings.ContainsRune')
def strings_containsrune(I, args, ins):
    s, c = args
    if _conc(s, c):
        return chr(c).encode('utf-8') in _b(s)
    raise Inconclusive('strings.ContainsRune symbolic')


@stub('strings.ContainsAny')
def strings_containsany(I, args, ins):
    s, chars = args
    if _conc(s, chars):
        return any(c in s for c in chars)
    if isinstance(chars, str):
        return b_or(*[z3.Contains(zstr(s), z3.StringVal(c)) for c in chars])
    raise Inconclusive('strings.ContainsAny symbolic')


@stub('strings.Count')
def strings_count(I, args, ins):
    s, p = args
    if _conc(s, p):
        return s.count(p) if p else len(s) + 1
    raise Inconclusive('strings.Count symbolic')


@stub('strings.Repeat')
def strings_repeat(I, args, ins):
    s, n = args
    if _conc(s, n):
        return s * n
    raise Inconclusive('strings.Repeat symbolic')


def _trimset(name):
    def f(I, args, ins):
        s, cut = args
        if _conc(s, cut):
            if name == 'TrimLeft':
                return s.lstrip(cut)
            if name == 'TrimRight':
                return s.rstrip(cut)
            return s.strip(cut)
        if name == 'TrimRight' and isinstance(cut, str) and len(cut) == 1:
            # s = r ++ cut*  where r does not end in cut
            ctx = I.ctx
            r = ctx.fresh_str('trimright')
            tail = ctx.fresh_str('trimmed')
            ctx.add_inv(zstr(s) == z3.Concat(r, tail))
            ctx.add_inv(z3.InRe(tail, z3.Star(z3.Re(cut))))
            ctx.add_inv(z3.Not(z3.SuffixOf(z3.StringVal(cut), r)))
            return r
        raise Inconclusive('strings.%s symbolic' % name)
    return f


for _n in ('TrimLeft', 'TrimRight', 'Trim'):
    STUBS['strings.' + _n] = _trimset(_n)


@stub('strings.Fields')
def strings_fields(I, args, ins):
    s = args[0]
    if isinstance(s, str):
        return I.make_slice(s.split())
    raise Inconclusive('strings.Fields symbolic')


@stub('strings.SplitN')
def strings_splitn(I, args, ins):
    s, sep, n = args
    if _conc(s, sep, n) and sep:
        if n == 0:
            return NIL_SLICE
        return I.make_slice(s.split(sep, n - 1) if n > 0 else s.split(sep))
    if isinstance(n, int) and isinstance(sep, str) and sep:
        if n == 0:
            return NIL_SLICE
        if n == 1:
            return I.make_slice([s])
        if n == 2:      # exact: the text before the first separator and everything after it (one path split)
            zs, zp = zstr(s), zstr(sep)
            i = z3.IndexOf(zs, zp, 0)
            if I.ctx.branch(i >= 0):
                return I.make_slice([z3.SubString(zs, 0, i), z3.SubString(zs, i + len(sep), z3.Length(zs) - i - len(sep))])
            return I.make_slice([s])
    raise Inconclusive('strings.SplitN symbolic')


@stub('strings.Cut')
def strings_cut(I, args, ins):
    s, sep = args
    if _conc(s, sep):
        i = s.find(sep)
        if i < 0:
            return TupleV((s, '', False))
        return TupleV((s[:i], s[i + len(sep):], True))
    zs, zp = zstr(s), zstr(sep)
    i = z3.IndexOf(zs, zp, 0)
    if I.ctx.branch(i >= 0):
        return TupleV((z3.SubString(zs, 0, i), z3.SubString(zs, i + z3.Length(zp), z3.Length(zs) - i - z3.Length(zp)), True))
    return TupleV((s, '', False))


@stub('strings.Compare')
def strings_compare(I, args, ins):
    a, b = args
    if _conc(a, b):
        return (a > b) - (a < b)
    return b_ite(I.lt(a, b), -1, b_ite(I.lt(b, a), 1, 0))


@stub('strings.Map')
def strings_map_fn(I, args, ins):
    raise Inconclusive('strings.Map')


@stub('unicode/utf8.RuneCountInString')
def utf8_runecount(I, args, ins):
    s = args[0]
    if isinstance(s, str):
        return len(_b(s).decode('utf-8', errors='replace'))
    raise Inconclusive('RuneCountInString symbolic')


@stub('unicode/utf8.DecodeRuneInString')
def utf8_decoderune(I, args, ins):
    s = args[0]
    if isinstance(s, str):
        if not s:
            return TupleV((0xFFFD, 0))
        b = _b(s)
        for l in (1, 2, 3, 4):
            try:
                ch = b[:l].decode('utf-8')
                if len(ch) == 1:
                    return TupleV((ord(ch), l))
            except UnicodeDecodeError:
                continue
        return TupleV((0xFFFD, 1))
    raise Inconclusive('DecodeRuneInString symbolic')


@stub('unicode/utf8.RuneLen')
def utf8_runelen(I, args, ins):
    r = args[0]
    if isinstance(r, int):
        try:
            return len(chr(r).encode('utf-8'))
        except (ValueError, UnicodeEncodeError):
            return -1
    raise Inconclusive('RuneLen symbolic')


@stub('unicode.IsSpace')
def unicode_isspace(I, args, ins):
    r = args[0]
    if isinstance(r, int):
        return r in (0x09, 0x0a, 0x0b, 0x0c, 0x0d, 0x20, 0x85, 0xa0)
    return b_or(*[r == c for c in (0x09, 0x0a, 0x0b, 0x0c, 0x0d, 0x20, 0x85, 0xa0)])


# ------------------------------------------------------------------ regexp (opaque objects remembering their pattern)
import re as _re

REGEXP_CONTRACTS = {}   # pattern text -> handler(I, method, re_obj, args) for symbolic inputs
REGEXP_FALLBACKS = []   # (pattern, subject) -> handler or None


def regexp_fallback(pat, s):
    for f in REGEXP_FALLBACKS:
        h = f(pat, s)
        if h is not None:
            return h
    return None


@stub('regexp.MustCompile', 'regexp.Compile')
def regexp_compile(I, args, ins):
    ctx = I.ctx
    pat = args[0]
    if not isinstance(pat, str):
        raise Inconclusive('regexp with symbolic pattern')
    p = ctx.alloc(StructV([pat]), 'regexp')
    ctx.ghost.setdefault('regexps', {})[p.cell] = pat
    if ins['call']['fn']['n'].endswith('MustCompile'):
        return p
    return TupleV((p, None))


def _pattern(I, p):
    p = I.ctx.force(p)
    if p is None:
        raise GoPanic('nil-deref', I.ctx.cur_pos)
    pat = I.ctx.ghost.get('regexps', {}).get(p.cell)
    if pat is None:
        pat = I.ctx.load(p)[0]
    return pat


def _go_re(pat):
    return _re.compile(pat.encode('latin-1'))


@stub('(*regexp.Regexp).ReplaceAllString')
def regexp_replaceall(I, args, ins):
    pat = _pattern(I, args[0])
    s, repl = args[1], args[2]
    if isinstance(s, str) and isinstance(repl, str):
        return _go_re(pat).sub(repl.encode('latin-1').replace(b'\\', b'\\\\'), s.encode('latin-1')).decode('latin-1')
    h = REGEXP_CONTRACTS.get(pat) or regexp_fallback(pat, s)
    if h is not None:
        return h(I, 'ReplaceAllString', args)
    if repl == '':
        # removal of all matches: an idempotent uninterpreted function that is the identity on strings without a match
        f = z3.Function('re.strip:' + pat, z3.StringSort(), z3.StringSort())
        r = f(zstr(s))
        I.ctx.add_inv(f(r) == r)
        I.ctx.add_inv(z3.Length(r) <= z3.Length(zstr(s)))
        return r
    raise Inconclusive('regexp %r has no symbolic contract for ReplaceAllString' % pat)


@stub('(*regexp.Regexp).FindStringSubmatch')
def regexp_findsubmatch(I, args, ins):
    pat = _pattern(I, args[0])
    s = args[1]
    if isinstance(s, str):
        m = _go_re(pat).search(s.encode('latin-1'))
        if m is None:
            return NIL_SLICE
        groups = [m.group(0)] + list(m.groups())
        return I.make_slice([(g.decode('latin-1') if g is not None else '') for g in groups])
    h = REGEXP_CONTRACTS.get(pat) or regexp_fallback(pat, s)
    if h is not None:
        return h(I, 'FindStringSubmatch', args)
    raise Inconclusive('regexp %r has no symbolic contract for FindStringSubmatch' % pat)


@stub('(*regexp.Regexp).MatchString')
def regexp_matchstring(I, args, ins):
    pat = _pattern(I, args[0])
    s = args[1]
    if isinstance(s, str):
        return _go_re(pat).search(s.encode('latin-1')) is not None
    h = REGEXP_CONTRACTS.get(pat) or regexp_fallback(pat, s)
    if h is not None:
        return h(I, 'MatchString', args)
    f = z3.Function('re.match:' + pat, z3.StringSort(), z3.BoolSort())
    return f(s)
