"""stubs"""
