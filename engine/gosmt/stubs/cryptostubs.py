"""Keys, certificates and symbolic crypto (DESIGN.md section 3.2)."""
import z3
from ..core import (STUBS, INVOKE_STUBS, FRESH_HOOKS, LAZY_HOOKS, IFACE_CANDS, OPAQUE_IMPLEMENTS, stub, GoPanic, Inconclusive,
                    zint, zstr, b_and, b_or, b_not, is_sym)
from ..values import *
from ..runner import intrinsic

KEY_DYN = {0: '*crypto/rsa.PrivateKey', 1: '*crypto/ecdsa.PrivateKey', 2: 'crypto/ed25519.PrivateKey'}
PUB_DYN = {0: '*crypto/rsa.PublicKey', 1: '*crypto/ecdsa.PublicKey', 2: 'crypto/ed25519.PublicKey'}
for _d in list(KEY_DYN.values()):
    OPAQUE_IMPLEMENTS[_d] = {'crypto.Signer', 'crypto.PrivateKey', 'interface{}', 'any', 'crypto.Decrypter'}
for _d in list(PUB_DYN.values()):
    OPAQUE_IMPLEMENTS[_d] = {'crypto.PublicKey', 'interface{}', 'any'}


def test_key(I, kind, id):
    ctx = I.ctx
    keys = ctx.ghost.setdefault('testkeys', {})
    k = (kind, id)
    if k not in keys:
        priv = ctx.alloc(StructV([('key', kind, id)]), 'testkey')
        pub = ctx.alloc(StructV([('pub', kind, id)]), 'testpub')
        certv = None
        nrec = len(ctx.nondets)
        if 'crypto/x509.Certificate' in I.prog.types:
            certv = ctx.fresh('crypto/x509.Certificate', 'cert%d_%d' % (kind, id))
            fi = I.prog.field_index('crypto/x509.Certificate', 'Raw')
            der = tuple(ord(c) for c in 'DER:%d:%d' % (kind, id))
            certv = certv.with_field(fi, Slice(ctx.alloc(der, 'der'), 0, len(der), len(der)))
            fi = I.prog.field_index('crypto/x509.Certificate', 'PublicKey')
            certv = certv.with_field(fi, Iface(PUB_DYN[kind], pub))
        del ctx.nondets[nrec:]
        cert = ctx.alloc(certv, 'testcert') if certv is not None else None
        keys[k] = {'priv': priv, 'pub': pub, 'cert': cert}
        ctx.ghost.setdefault('keycells', {})[priv.cell] = k
        ctx.ghost.setdefault('pubcells', {})[pub.cell] = k
        if cert is not None:
            ctx.ghost.setdefault('certcells', {})[cert.cell] = k
    return keys[k]


def _conc_int(I, v, hi, what):
    return I.ctx.concretize(v, 0, hi, what)


@intrinsic('verifTestSigner')
def i_test_signer(I, args, ins):
    kind = _conc_int(I, args[0], 2, 'keykind')
    id = _conc_int(I, args[1], 3, 'keyid')
    return Iface(KEY_DYN[kind], test_key(I, kind, id)['priv'])


@intrinsic('verifTestCert')
def i_test_cert(I, args, ins):
    kind = _conc_int(I, args[0], 2, 'keykind')
    id = _conc_int(I, args[1], 3, 'keyid')
    return test_key(I, kind, id)['cert']


def _public(I, recv, args, ins):
    ctx = I.ctx
    k = ctx.ghost.get('keycells', {}).get(recv.cell)
    if k is None:
        raise Inconclusive('Public() of unknown key')
    return Iface(PUB_DYN[k[0]], test_key(I, *k)['pub'])


for _d in KEY_DYN.values():
    INVOKE_STUBS[(_d, 'Public')] = _public


# ------------------------------------------------------------------ x509 / pem

def _der_key(elems):
    if all(isinstance(e, int) for e in elems):
        s = bytes(elems).decode('latin-1')
        if s.startswith('DER:'):
            try:
                _, k, i = s.split(':')
                return int(k), int(i)
            except ValueError:
                return None
    return None


@intrinsic('verifTestCertB64')
def i_test_cert_b64(I, args, ins):
    import base64
    kind = _conc_int(I, args[0], 2, 'keykind')
    id = _conc_int(I, args[1], 3, 'keyid')
    test_key(I, kind, id)
    return base64.b64encode(('DER:%d:%d' % (kind, id)).encode()).decode()


@stub('crypto/x509.ParseCertificate')
def x509_parse(I, args, ins):
    ctx = I.ctx
    sl = ctx.force(args[0])
    elems = I.slice_elems(sl)
    k = _der_key(elems)
    if k is not None:
        return TupleV((test_key(I, *k)['cert'], None))
    key = tuple(str(e) for e in elems)
    cache = ctx.ghost.setdefault('x509cache', {})
    if key in cache:
        return cache[key]
    if ctx.choose(2, 'x509err') == 1:
        r = TupleV((None, ctx.new_error('x509', msg='x509: malformed certificate')))
    else:
        nrec = len(ctx.nondets)
        v = ctx.fresh('crypto/x509.Certificate', 'parsedcert')
        del ctx.nondets[nrec:]
        fi = I.prog.field_index('crypto/x509.Certificate', 'Raw')
        v = v.with_field(fi, sl)
        r = TupleV((ctx.alloc(v, 'parsedcert'), None))
    cache[key] = r
    return r
