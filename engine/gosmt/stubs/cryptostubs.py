"""Keys, certificates and symbolic crypto (DESIGN.md section 3.2)."""
import z3
from ..core import (STUBS, INVOKE_STUBS, FRESH_HOOKS, LAZY_HOOKS, IFACE_CANDS, OPAQUE_IMPLEMENTS, stub, GoPanic, Inconclusive,
                    zint, zstr, b_and, b_or, b_not, is_sym)
from ..values import *
from ..runner import intrinsic

KEY_DYN = {0: '*crypto/rsa.PrivateKey', 1: '*crypto/ecdsa.PrivateKey', 2: 'crypto/ed25519.PrivateKey'}
PUB_DYN = {0: '*crypto/rsa.PublicKey', 1: '*crypto/ecdsa.PublicKey', 2: 'crypto/ed25519.PublicKey'}
for _d in list(KEY_DYN.values()):
    OPAQUE_IMPLEMENTS[_d] = {'crypto.Signer', 'crypto.PrivateKey', 'interface{}', 'any', 'crypto.Decrypter'}
for _d in list(PUB_DYN.values()):
    OPAQUE_IMPLEMENTS[_d] = {'crypto.PublicKey', 'interface{}', 'any'}


def test_key(I, kind, id):
    ctx = I.ctx
    keys = ctx.ghost.setdefault('testkeys', {})
    k = (kind, id)
    if k not in keys:
        nrec0 = len(ctx.nondets)
        if kind == 0 and 'crypto/rsa.PrivateKey' in I.prog.types:
            T, PT = 'crypto/rsa.PrivateKey', 'crypto/rsa.PublicKey'
            n1 = ctx.alloc(StructV([('N', kind, id)]), 'bigN')
            n2 = ctx.alloc(StructV([('N', kind, id)]), 'bigN')
            ctx.ghost.setdefault('bigints', {})[n1.cell] = ('N', kind, id)
            ctx.ghost.setdefault('bigints', {})[n2.cell] = ('N', kind, id)
            pubv = ctx.fresh(PT, 'testpub').with_field(I.prog.field_index(PT, 'N'), n2).with_field(I.prog.field_index(PT, 'E'), 65537)
            pubin = ctx.fresh(PT, 'testpub').with_field(I.prog.field_index(PT, 'N'), n1).with_field(I.prog.field_index(PT, 'E'), 65537)
            privv = ctx.fresh(T, 'testkey').with_field(I.prog.field_index(T, 'PublicKey'), pubin)
            priv = ctx.alloc(privv, 'testkey')
            pub = ctx.alloc(pubv, 'testpub')
        else:
            priv = ctx.alloc(StructV([('key', kind, id)]), 'testkey')
            pub = ctx.alloc(StructV([('pub', kind, id)]), 'testpub')
        del ctx.nondets[nrec0:]
        certv = None
        nrec = len(ctx.nondets)
        if 'crypto/x509.Certificate' in I.prog.types:
            certv = ctx.fresh('crypto/x509.Certificate', 'cert%d_%d' % (kind, id))
            fi = I.prog.field_index('crypto/x509.Certificate', 'Raw')
            der = tuple(ord(c) for c in 'DER:%d:%d' % (kind, id))
            certv = certv.with_field(fi, Slice(ctx.alloc(der, 'der'), 0, len(der), len(der)))
            fi = I.prog.field_index('crypto/x509.Certificate', 'PublicKey')
            certv = certv.with_field(fi, Iface(PUB_DYN[kind], pub))
            fi = I.prog.field_index('crypto/x509.Certificate', 'PublicKeyAlgorithm')
            certv = certv.with_field(fi, {0: 1, 1: 3, 2: 4}[kind])      # x509.RSA / ECDSA / Ed25519
        del ctx.nondets[nrec:]
        cert = ctx.alloc(certv, 'testcert') if certv is not None else None
        keys[k] = {'priv': priv, 'pub': pub, 'cert': cert}
        ctx.ghost.setdefault('keycells', {})[priv.cell] = k
        ctx.ghost.setdefault('pubcells', {})[pub.cell] = k
        if cert is not None:
            ctx.ghost.setdefault('certcells', {})[cert.cell] = k
    return keys[k]


def _conc_int(I, v, hi, what):
    return I.ctx.concretize(v, 0, hi, what)


@intrinsic('verifTestSigner')
def i_test_signer(I, args, ins):
    kind = _conc_int(I, args[0], 2, 'keykind')
    id = _conc_int(I, args[1], 3, 'keyid')
    return Iface(KEY_DYN[kind], test_key(I, kind, id)['priv'])


@intrinsic('verifTestCert')
def i_test_cert(I, args, ins):
    kind = _conc_int(I, args[0], 2, 'keykind')
    id = _conc_int(I, args[1], 3, 'keyid')
    return test_key(I, kind, id)['cert']


def _public(I, recv, args, ins):
    ctx = I.ctx
    k = ctx.ghost.get('keycells', {}).get(recv.cell)
    if k is None:
        raise Inconclusive('Public() of unknown key')
    return Iface(PUB_DYN[k[0]], test_key(I, *k)['pub'])


for _d in KEY_DYN.values():
    INVOKE_STUBS[(_d, 'Public')] = _public


# ------------------------------------------------------------------ x509 / pem

def _der_key(elems):
    if all(isinstance(e, int) for e in elems):
        s = bytes(elems).decode('latin-1')
        if s.startswith('DER:'):
            try:
                _, k, i = s.split(':')
                return int(k), int(i)
            except ValueError:
                return None
    return None


@intrinsic('verifTestCertB64')
def i_test_cert_b64(I, args, ins):
    import base64
    kind = _conc_int(I, args[0], 2, 'keykind')
    id = _conc_int(I, args[1], 3, 'keyid')
    test_key(I, kind, id)
    return base64.b64encode(('DER:%d:%d' % (kind, id)).encode()).decode()


@stub('crypto/x509.ParseCertificate')
def x509_parse(I, args, ins):
    ctx = I.ctx
    sl = ctx.force(args[0])
    elems = I.slice_elems(sl)
    k = _der_key(elems)
    if k is not None:
        return TupleV((test_key(I, *k)['cert'], None))
    key = tuple(str(e) for e in elems)
    cache = ctx.ghost.setdefault('x509cache', {})
    if key in cache:
        return cache[key]
    if ctx.choose(2, 'x509err') == 1:
        r = TupleV((None, ctx.new_error('x509', msg='x509: malformed certificate')))
    else:
        nrec = len(ctx.nondets)
        v = ctx.fresh('crypto/x509.Certificate', 'parsedcert')
        del ctx.nondets[nrec:]
        fi = I.prog.field_index('crypto/x509.Certificate', 'Raw')
        v = v.with_field(fi, sl)
        # the public key of an arbitrary certificate: an RSA key unrelated to the test keys, or a non-RSA key
        if ctx.choose(2, 'parsedcert-keytype') == 0 and 'crypto/rsa.PublicKey' in I.prog.types:
            PT = 'crypto/rsa.PublicKey'
            nn = ctx.alloc(StructV([('N', 'other', len(cache))]), 'bigN')
            ctx.ghost.setdefault('bigints', {})[nn.cell] = ('N', 'other', len(cache))
            pk = ctx.alloc(ctx.fresh(PT, 'otherpub').with_field(I.prog.field_index(PT, 'N'), nn), 'otherpub')
            pub = Iface('*crypto/rsa.PublicKey', pk)
        else:
            pub = Iface('*crypto/ecdsa.PublicKey', ctx.alloc(StructV([]), 'ecpub'))
        v = v.with_field(I.prog.field_index('crypto/x509.Certificate', 'PublicKey'), pub)
        del ctx.nondets[nrec:]
        r = TupleV((ctx.alloc(v, 'parsedcert'), None))
    cache[key] = r
    return r


# ------------------------------------------------------------------ symbolic crypto (DESIGN.md 3.2)
# Block ciphers, CBC, GCM, RSA key transport and hashes are uninterpreted: fresh output bytes plus
#  (i) the documented panic preconditions, (ii) length laws, (iii) Dec(Enc(x)) = x under equal key/iv/nonce/hash.

def _obj(I, dyn, info, table):
    ctx = I.ctx
    p = ctx.alloc(StructV([]), dyn)
    ctx.ghost.setdefault(table, {})[p.cell] = info
    return Iface(dyn, p)


def _info(I, v, table):
    ctx = I.ctx
    v = ctx.force(v)
    if isinstance(v, Iface):
        v = ctx.force(v.val)
    if isinstance(v, Ptr):
        return ctx.ghost.get(table, {}).get(v.cell)
    return None


def _same(a, b):
    """Syntactic equality of two element lists (same terms)."""
    if len(a) != len(b):
        return False
    for x, y in zip(a, b):
        if isinstance(x, int) and isinstance(y, int):
            if x != y:
                return False
        elif str(x) != str(y):
            return False
    return True


def _fresh_bytes(I, n, tag):
    ctx = I.ctx
    return [ctx.fresh_int('%s[%d]' % (tag, i), 'uint8') for i in range(n)]


def _write(I, sl, elems):
    ctx = I.ctx
    arr = list(ctx.load(sl.base))
    arr[sl.off:sl.off + len(elems)] = elems
    ctx.store_(sl.base, tuple(arr))


for _d in ('*verif.block', '*verif.cbc', '*verif.gcm', '*verif.hash'):
    OPAQUE_IMPLEMENTS[_d] = {'crypto/cipher.Block', 'crypto/cipher.BlockMode', 'crypto/cipher.AEAD', 'hash.Hash', 'io.Writer'}


def _new_cipher(alg, sizes, bs):
    def f(I, args, ins):
        ctx = I.ctx
        key = ctx.force(args[0])
        n = I.length(key)
        if n not in sizes:
            return TupleV((None, ctx.new_error(alg, msg='crypto/%s: invalid key size %d' % (alg, n))))
        return TupleV((_obj(I, '*verif.block', {'alg': alg, 'key': I.slice_elems(key), 'bs': bs}, 'blocks'), None))
    return f


STUBS['crypto/aes.NewCipher'] = _new_cipher('aes', (16, 24, 32), 16)
STUBS['crypto/des.NewCipher'] = _new_cipher('des', (8,), 8)
STUBS['crypto/des.NewTripleDESCipher'] = _new_cipher('3des', (24,), 8)


def _block_size(I, recv, args, ins):
    return I.ctx.ghost['blocks'][recv.cell]['bs']


INVOKE_STUBS[('*verif.block', 'BlockSize')] = _block_size


def _new_cbc(direction):
    def f(I, args, ins):
        ctx = I.ctx
        blk = _info(I, args[0], 'blocks')
        iv = ctx.force(args[1])
        if blk is None:
            raise Inconclusive('CBC over an unmodelled block cipher')
        if I.length(iv) != blk['bs']:
            raise GoPanic('explicit', ctx.cur_pos, Iface('string', 'cipher.NewCBC%s: IV length must equal block size' % direction))
        return _obj(I, '*verif.cbc', {'block': blk, 'iv': I.slice_elems(iv), 'dir': direction}, 'cbcs')
    return f


STUBS['crypto/cipher.NewCBCEncrypter'] = _new_cbc('Encrypter')
STUBS['crypto/cipher.NewCBCDecrypter'] = _new_cbc('Decrypter')


def _cbc_blocksize(I, recv, args, ins):
    return I.ctx.ghost['cbcs'][recv.cell]['block']['bs']


def _cbc_crypt(I, recv, args, ins):
    ctx = I.ctx
    m = ctx.ghost['cbcs'][recv.cell]
    dst, src = ctx.force(args[0]), ctx.force(args[1])
    bs = m['block']['bs']
    if src.len % bs != 0:
        raise GoPanic('explicit', ctx.cur_pos, Iface('string', 'crypto/cipher: input not full blocks'))
    if dst.len < src.len:
        raise GoPanic('explicit', ctx.cur_pos, Iface('string', 'crypto/cipher: output smaller than input'))
    inp = I.slice_elems(src)
    table = ctx.ghost.setdefault('cbc_enc', [])
    if m['dir'] == 'Encrypter':
        out = _fresh_bytes(I, len(inp), 'cbc')
        table.append({'alg': m['block']['alg'], 'key': m['block']['key'], 'iv': m['iv'], 'pt': inp, 'ct': out})
        ctx.event('cbc.encrypt', len(inp))
    else:
        out = None
        for e in table:
            if e['alg'] == m['block']['alg'] and _same(e['ct'], inp) and _same(e['key'], m['block']['key']) and _same(e['iv'], m['iv']):
                out = list(e['pt'])
                break
        if out is None:
            out = _fresh_bytes(I, len(inp), 'cbcgarbage')
        ctx.event('cbc.decrypt', len(inp))
    if inp:
        _write(I, dst, out)
    return None


INVOKE_STUBS[('*verif.cbc', 'CryptBlocks')] = _cbc_crypt
INVOKE_STUBS[('*verif.cbc', 'BlockSize')] = _cbc_blocksize


@stub('crypto/cipher.NewGCM')
def new_gcm(I, args, ins):
    ctx = I.ctx
    blk = _info(I, args[0], 'blocks')
    if blk is None:
        raise Inconclusive('GCM over an unmodelled block cipher')
    if blk['bs'] != 16:
        return TupleV((None, ctx.new_error('gcm', msg='cipher: NewGCM requires 128-bit block cipher')))
    return TupleV((_obj(I, '*verif.gcm', {'block': blk}, 'gcms'), None))


INVOKE_STUBS[('*verif.gcm', 'NonceSize')] = lambda I, recv, args, ins: 12
INVOKE_STUBS[('*verif.gcm', 'Overhead')] = lambda I, recv, args, ins: 16


def _gcm_seal(I, recv, args, ins):
    ctx = I.ctx
    g = ctx.ghost['gcms'][recv.cell]
    dst, nonce, pt, ad = [ctx.force(a) for a in args]
    if I.length(nonce) != 12:
        raise GoPanic('explicit', ctx.cur_pos, Iface('string', 'crypto/cipher: incorrect nonce length given to GCM'))
    p = I.slice_elems(pt)
    out = _fresh_bytes(I, len(p) + 16, 'gcm')
    ctx.ghost.setdefault('gcm_enc', []).append({'key': g['block']['key'], 'nonce': I.slice_elems(nonce), 'pt': p, 'ct': out, 'ad': I.slice_elems(ad)})
    return I.append(dst, I.make_slice(out), ins)


def _gcm_open(I, recv, args, ins):
    ctx = I.ctx
    g = ctx.ghost['gcms'][recv.cell]
    dst, nonce, ct, ad = [ctx.force(a) for a in args]
    if I.length(nonce) != 12:
        raise GoPanic('explicit', ctx.cur_pos, Iface('string', 'crypto/cipher: incorrect nonce length given to GCM'))
    c = I.slice_elems(ct)
    if len(c) < 16:
        return TupleV((NIL_SLICE, ctx.new_error('gcm', msg='cipher: message authentication failed')))
    for e in ctx.ghost.get('gcm_enc', []):
        if _same(e['ct'], c) and _same(e['key'], g['block']['key']) and _same(e['nonce'], I.slice_elems(nonce)) and _same(e['ad'], I.slice_elems(ad)):
            if not e['pt']:
                return TupleV((dst, None))
            return TupleV((I.append(dst, I.make_slice(list(e['pt'])), ins), None))
    return TupleV((NIL_SLICE, ctx.new_error('gcm', msg='cipher: message authentication failed')))


INVOKE_STUBS[('*verif.gcm', 'Seal')] = _gcm_seal
INVOKE_STUBS[('*verif.gcm', 'Open')] = _gcm_open


def _hash_new(name):
    def f(I, args, ins):
        return _obj(I, '*verif.hash', {'name': name}, 'hashes')
    return f


for _fn, _nm in (('crypto/sha1.New', 'sha1'), ('crypto/sha256.New', 'sha256'), ('crypto/sha512.New', 'sha512'),
                 ('golang.org/x/crypto/ripemd160.New', 'ripemd160'), ('crypto/sha512.New384', 'sha384'), ('crypto/md5.New', 'md5')):
    STUBS[_fn] = _hash_new(_nm)

RSA_CT_LEN = 16   # length of a modelled RSA ciphertext (an abstraction: the real length is the modulus size)


def _rsa_key_of(I, p, table):
    p = I.ctx.force(p)
    if isinstance(p, Ptr):
        return I.ctx.ghost.get(table, {}).get(p.cell)
    return None


def _rsa_encrypt(scheme):
    def f(I, args, ins):
        ctx = I.ctx
        if scheme == 'oaep':
            h, rnd, pub, msg, label = args
            hname = (_info(I, h, 'hashes') or {}).get('name')
        else:
            rnd, pub, msg = args
            hname = None
        k = _rsa_key_of(I, pub, 'pubcells')
        if k is None:
            raise Inconclusive('RSA encryption to an unmodelled public key')
        if ctx.choose(2, 'rsa-enc-err') == 1:
            return TupleV((NIL_SLICE, ctx.new_error('rsa', msg='crypto/rsa: encryption failed')))
        out = _fresh_bytes(I, RSA_CT_LEN, 'rsact')
        ctx.ghost.setdefault('rsa_enc', []).append({'scheme': scheme, 'hash': hname, 'key': k, 'pt': I.slice_elems(msg), 'ct': out})
        return TupleV((I.make_slice(out), None))
    return f


def _rsa_decrypt(scheme):
    def f(I, args, ins):
        ctx = I.ctx
        if scheme == 'oaep':
            h, rnd, priv, ct, label = args
            hname = (_info(I, h, 'hashes') or {}).get('name')
        else:
            rnd, priv, ct = args
            hname = None
        k = _rsa_key_of(I, priv, 'keycells')
        c = I.slice_elems(ct)
        for e in ctx.ghost.get('rsa_enc', []):
            if e['scheme'] == scheme and e['hash'] == hname and e['key'] == k and _same(e['ct'], c):
                return TupleV((I.make_slice(list(e['pt'])), None))
        return TupleV((NIL_SLICE, ctx.new_error('rsa', msg='crypto/rsa: decryption error')))
    return f


STUBS['crypto/rsa.EncryptOAEP'] = _rsa_encrypt('oaep')
STUBS['crypto/rsa.DecryptOAEP'] = _rsa_decrypt('oaep')
STUBS['crypto/rsa.EncryptPKCS1v15'] = _rsa_encrypt('pkcs1')
STUBS['crypto/rsa.DecryptPKCS1v15'] = _rsa_decrypt('pkcs1')


@stub('(*math/big.Int).Cmp')
def bigint_cmp(I, args, ins):
    ctx = I.ctx
    a, b = ctx.force(args[0]), ctx.force(args[1])
    ids = ctx.ghost.get('bigints', {})
    ia = ids.get(a.cell) if isinstance(a, Ptr) else None
    ib = ids.get(b.cell) if isinstance(b, Ptr) else None
    if ia is not None and ib is not None:
        return 0 if ia == ib else 1
    return ctx.fresh_int('bigcmp', 'int')


@stub('encoding/pem.Decode')
def pem_decode(I, args, ins):
    """PEM block of a text BEGIN/END-wrapped around base64 X: Bytes = base64decode(X), or no block."""
    ctx = I.ctx
    data = ctx.force(args[0])
    elems = I.slice_elems(data)
    if not all(isinstance(e, int) for e in elems):
        raise Inconclusive('pem.Decode of symbolic text')
    text = ''.join(chr(e) for e in elems)
    import re as _re
    m = _re.match(r'^\s*-----BEGIN ([A-Z0-9 ]+)-----\n(.*?)\n?-----END \1-----\s*$', text, _re.S)
    if m is None:
        return TupleV((None, data))
    ptype = m.group(1)
    inner = ''.join(m.group(2).split())
    r = I.call_function('(*encoding/base64.Encoding).DecodeString', [None, inner], ins)
    if ctx.force(r[1]) is not None or inner == '':
        return TupleV((None, data))
    T = 'encoding/pem.Block'
    blk = I.prog.zero(T)
    blk = blk.with_field(I.prog.field_index(T, 'Type'), ptype).with_field(I.prog.field_index(T, 'Bytes'), r[0])
    return TupleV((ctx.alloc(blk, 'pem'), NIL_SLICE))


# ------------------------------------------------------------------ crypto/rand.Reader: the system random source

def _sysrand_read(I, recv, args, ins):
    ctx = I.ctx
    buf = ctx.force(args[0])
    n = buf.len
    if n:
        _write(I, buf, _fresh_bytes(I, n, 'sysrand'))
    return TupleV((n, None))


INVOKE_STUBS[('*verif.sysrand', 'Read')] = _sysrand_read
OPAQUE_IMPLEMENTS['*verif.sysrand'] = {'io.Reader'}
from ..core import GLOBAL_INIT
GLOBAL_INIT['crypto/rand.Reader'] = lambda I: Iface('*verif.sysrand', Ptr('sysrand'))


@intrinsic('verifCBCEncrypt')
def i_cbc_encrypt(I, args, ins):
    ctx = I.ctx
    alg = ctx.concretize(args[0], 0, 3, 'alg')
    key, iv, blocks = [I.slice_elems(a) for a in args[1:4]]
    bs = 8 if alg == 3 else 16
    if len(iv) != bs or len(blocks) % bs != 0:
        ctx.assume(False)
    out = _fresh_bytes(I, len(blocks), 'cbc')
    ctx.ghost.setdefault('cbc_enc', []).append({'alg': '3des' if alg == 3 else 'aes', 'key': key, 'iv': iv, 'pt': list(blocks), 'ct': out})
    return I.make_slice(list(iv) + out)


# ------------------------------------------------------------------ one-shot digests (certificate fingerprints)
import hashlib as _hashlib


def _sum(name, n):
    def f(I, args, ins):
        ctx = I.ctx
        el = I.slice_elems(args[0])
        if all(isinstance(e, int) for e in el):
            return tuple(_hashlib.new(name, bytes(el)).digest())
        key = (name, tuple(str(e) for e in el))
        cache = ctx.ghost.setdefault('digests', {})
        if key not in cache:
            cache[key] = tuple(ctx.fresh_int('%s[%d]' % (name, i), 'uint8') for i in range(n))
        return cache[key]
    return f


STUBS['crypto/sha256.Sum256'] = _sum('sha256', 32)
STUBS['crypto/sha512.Sum512'] = _sum('sha512', 64)
STUBS['crypto/sha1.Sum'] = _sum('sha1', 20)
