"""encoding/xml, xml-roundtrip-validator, base64, etree serialisation boundary (DESIGN.md section 3.2)."""
import base64 as pybase64
import z3
from ..core import (STUBS, INVOKE_STUBS, FRESH_HOOKS, LAZY_HOOKS, IFACE_CANDS, OPAQUE_IMPLEMENTS, stub, GoPanic, Inconclusive,
                    PathEnd, zint, zstr, b_and, b_or, b_not, is_sym)
from ..values import *
from ..runner import intrinsic
from .base import reader_content, buffer_string

ETREE = 'github.com/beevik/etree.'

# ------------------------------------------------------------------ tagged byte slices


def tag_bytes(I, info, tag='bytes'):
    """A fresh opaque non-empty byte slice carrying `info` in the ghost state."""
    ctx = I.ctx
    b0 = ctx.fresh_int(tag + '.b0', 'uint8')
    p = ctx.alloc((b0,), tag)
    ctx.ghost.setdefault('bytes_tag', {})[p.cell] = info
    # the placeholder byte itself identifies the content, so the tag survives copies (encryption round trips)
    ctx.ghost.setdefault('bytes_tag_term', {})[str(b0)] = info
    return Slice(p, 0, 1, 1)


def bytes_info(I, sl):
    ctx = I.ctx
    sl = ctx.force(sl)
    if isinstance(sl, SymBytes):
        t = sl.s
        if z3.is_app(t) and t.decl().name() == 'str.from_code':
            return ctx.ghost.get('bytes_tag_term', {}).get(str(t.arg(0)))
        return None
    if not isinstance(sl, Slice) or sl.base is None:
        return None
    info = ctx.ghost.get('bytes_tag', {}).get(sl.base.cell)
    if info is None and sl.len == 1:
        b0 = ctx.load(sl.base)[sl.off]
        if is_sym(b0):
            info = ctx.ghost.get('bytes_tag_term', {}).get(str(b0))
    return info


def string_info(I, s):
    """Strings converted from tagged bytes keep the tag via a ghost table keyed by the term."""
    if is_sym(s):
        return I.ctx.ghost.get('string_tag', {}).get(str(s))
    return None


# ------------------------------------------------------------------ base64 (injective pair)

def _all_conc(elems):
    return all(isinstance(e, int) for e in elems)


def b64_encode(I, elems, url=False):
    ctx = I.ctx
    if _all_conc(elems):
        raw = bytes(elems)
        return (pybase64.urlsafe_b64encode(raw) if url else pybase64.b64encode(raw)).decode('latin-1')
    key = ('b64', url, tuple(str(e) for e in elems))
    cache = ctx.ghost.setdefault('b64cache', {})
    if key in cache:
        return cache[key]
    s = ctx.fresh_str('b64')
    n = len(elems)
    ctx.add_inv(z3.Length(s) == 4 * ((n + 2) // 3))
    cache[key] = s
    ctx.ghost.setdefault('b64dec', {})[str(s)] = list(elems)
    return s


@stub('(*encoding/base64.Encoding).EncodeToString')
def base64_encode(I, args, ins):
    sl = I.ctx.force(args[1])
    info = bytes_info(I, sl)
    if info is not None:
        s = I.ctx.fresh_str('b64')
        I.ctx.ghost.setdefault('string_tag', {})[str(s)] = ('b64of', info)
        return s
    return b64_encode(I, I.slice_elems(sl))


@stub('(*encoding/base64.Encoding).DecodeString')
def base64_decode(I, args, ins):
    ctx = I.ctx
    s = args[1]
    if isinstance(s, str):
        try:
            raw = pybase64.b64decode(s.encode('latin-1'), validate=True)
        except Exception:
            return TupleV((NIL_SLICE, ctx.new_error('base64', msg='illegal base64 data')))
        # real DecodeString allocates DecodedLen bytes: capacity may exceed the length by up to 2
        cap = len(s) // 4 * 3
        arr = tuple(raw) + (0,) * (cap - len(raw))
        return TupleV((Slice(ctx.alloc(arr, 'b64dec'), 0, len(raw), max(cap, len(raw))), None))
    info = string_info(I, s)
    if info is not None and info[0] == 'b64of':
        return TupleV((tag_bytes(I, info[1], 'b64dec'), None))
    dcache = ctx.ghost.setdefault('b64deccache', {})
    if str(s) in dcache:
        return dcache[str(s)]
    r = _b64_decode_sym(I, s)
    dcache[str(s)] = r
    return r


def _b64_decode_sym(I, s):
    ctx = I.ctx
    dec = ctx.ghost.get('b64dec', {}).get(str(s))
    if dec is not None:
        n = len(dec)
        cap = 3 * ((n + 2) // 3)        # DecodedLen of the padded text: what the real decoder allocates
        arr = tuple(dec) + (0,) * (cap - n)
        return TupleV((Slice(ctx.alloc(arr, 'b64dec'), 0, n, cap), None))
    # arbitrary string: fails, or decodes to arbitrary bytes of a case-split length
    if ctx.choose(2, 'b64fail') == 1:
        ctx.choice_w['b64fail'] = 1
        return TupleV((NIL_SLICE, ctx.new_error('base64', msg='illegal base64 data')))
    hook = ctx.opts.get('b64_lengths')
    lens = hook if hook else list(range(0, ctx.K + 1))
    n = lens[ctx.choose(len(lens), 'b64len')]
    elems = tuple(ctx.fresh_int('b64dec[%d]' % i, 'uint8') for i in range(n))
    ctx.ghost.setdefault('b64src', {})[str(s)] = elems
    return TupleV((Slice(ctx.alloc(elems, 'b64dec'), 0, n, n), None))


# ------------------------------------------------------------------ xml-roundtrip-validator

XRV = 'github.com/mattermost/xml-roundtrip-validator.'


@stub(XRV + 'Validate')
def xrv_validate(I, args, ins):
    ctx = I.ctx
    kind, c = reader_content(I, args[0])
    key = None
    if kind == 'bytes':
        c = ctx.force(c)
        key = c.base.cell if isinstance(c, Slice) and c.base is not None else None
    ctx.event('xrv.Validate', key)
    info = bytes_info(I, c) if kind == 'bytes' else None
    if info is not None and info[0] in ('marshal', 'serialize'):
        # bytes produced by a marshaller are well formed
        ctx.ghost.setdefault('validated', set()).add(key)
        return None
    if ctx.choose(2, 'xrv') == 1:
        return ctx.new_error('xrv', msg='validator: invalid XML')
    ctx.ghost.setdefault('validated', set()).add(key)
    return None


# ------------------------------------------------------------------ encoding/xml

@intrinsic('verifMarshalXML')
def i_marshal_xml(I, args, ins):
    """verifMarshalXML(v): bytes of xml.Marshal(v); Unmarshal into the same type yields an equal value."""
    ctx = I.ctx
    v = ctx.force(args[0])
    if not isinstance(v, Iface):
        raise Inconclusive('verifMarshalXML argument')
    if I.prog.kind(v.dyn) == 'ptr':
        val = ctx.load(ctx.force(v.val))
        t = I.prog.elem(v.dyn)
    else:
        val, t = v.val, v.dyn
    return tag_bytes(I, ('marshal', t, val), 'xmlbytes')


@stub('encoding/xml.Unmarshal')
def xml_unmarshal(I, args, ins):
    ctx = I.ctx
    buf = ctx.force(args[0])
    tgt = ctx.force(args[1])
    if not isinstance(tgt, Iface) or I.prog.kind(tgt.dyn) != 'ptr':
        raise Inconclusive('xml.Unmarshal target %r' % (tgt,))
    t = I.prog.elem(tgt.dyn)
    ptr = ctx.force(tgt.val)
    if ptr is None:
        return ctx.new_error('xml', msg='non-pointer passed to Unmarshal')
    while I.prog.kind(t) == 'ptr':      # the decoder allocates through pointers
        inner = ctx.force(ctx.load(ptr))
        t = I.prog.elem(t)
        if inner is None:
            inner = ctx.alloc(I.prog.zero(t), 'decoded')
            ctx.store_(ptr, inner)
        ptr = inner
    info = bytes_info(I, buf)
    ctx.event('xml.Unmarshal', t, info[0] if info else None)
    if info is not None and info[0] == 'marshal' and info[1] == t:
        return decode_into(I, t, ptr, info[2])
    if (info is not None and info[0] == 'marshal' and info[1] is not None and info[1] != t
            and info[1].endswith('saml.EntitiesDescriptor') and t.endswith('saml.EntityDescriptor')):
        # encoding/xml names the root element it found
        return ctx.new_error('xml', msg='expected element type <EntityDescriptor> but have <EntitiesDescriptor>')
    if info is not None and info[0] == 'xmltext':
        return _unmarshal_text_element(I, info, t, ptr)
    if info is not None and info[0] == 'serialize':
        r = UNMARSHAL_ELEMENT_HOOK(I, info, t, ptr)
        if r is not NotImplemented:
            return r
    # foreign bytes: a syntax error, (for a metadata root) the "wrong root element" error that names the
    # element found, or an arbitrary value of the target type
    nalt = 3 if t.endswith('saml.EntityDescriptor') else 2
    alt = ctx.choose(nalt, 'xmlerr')
    if alt == 1:
        return ctx.new_error('xml', msg='xml: syntax error')
    if alt == 2:
        return ctx.new_error('xml', msg='expected element type <EntityDescriptor> but have <EntitiesDescriptor>')
    n = ctx.ghost.setdefault('unmarshal_n', [0])
    n[0] += 1
    ctx.store_(ptr, ctx.fresh(t, 'xml%d' % n[0]))
    return None


def decode_into(I, t, ptr, value):
    """Decode `value` (a Go value of type t) into *ptr the way encoding/xml does: through the type's
    UnmarshalXML method when it has one (the decoder then fills the alias struct it is handed)."""
    ctx = I.ctx
    fn = I.prog.method('*' + t, 'UnmarshalXML')
    fj = I.prog.funcs.get(fn) if fn else None
    if fj is None or not fj.get('hasbody'):
        ctx.store_(ptr, value)
        return None
    dec = ctx.alloc(StructV([]), 'xml.Decoder')
    ctx.ghost.setdefault('xmldec', {})[dec.cell] = (t, value)
    start = I.prog.zero('encoding/xml.StartElement')
    return I.call_function(fn, [ptr, dec, start], None)


@stub('(*encoding/xml.Decoder).DecodeElement')
def xml_decode_element(I, args, ins):
    """Fill the struct the type's UnmarshalXML hands to the decoder: the embedded *Alias receives the
    value; explicit fields of the auxiliary struct shadow the alias fields of the same name."""
    ctx = I.ctx
    dec = ctx.force(args[0])
    v = ctx.force(args[1])
    ent = ctx.ghost.get('xmldec', {}).get(dec.cell if dec is not None else None)
    if ent is None and _tokens(I, dec) is not None:
        raise Inconclusive('DecodeElement of a nested element in a text-element token stream')
    if ent is None:
        raise Inconclusive('DecodeElement on an unknown decoder')
    vt, value = ent
    if not isinstance(v, Iface):
        raise Inconclusive('DecodeElement target')
    t = v.dyn
    p = ctx.force(v.val)
    while I.prog.kind(t) == 'ptr':
        et = I.prog.elem(t)
        if I.prog.kind(et) == 'ptr':
            p = ctx.force(ctx.load(p))
            t = et
            continue
        t = et
        break
    if p is None:
        raise Inconclusive('DecodeElement into nil')
    if I.prog.kind(t) != 'struct':
        raise Inconclusive('DecodeElement target is not a struct')
    vfields = [f['n'] for f in I.prog.fields(vt)]
    aux = ctx.load(p)
    done = False
    for i, f in enumerate(I.prog.fields(t)):
        cur = ctx.force(aux[i])
        if f.get('emb') and isinstance(cur, Ptr):
            ctx.store_(cur, value)
            done = True
        elif f.get('emb') and cur is None:
            continue
        elif f['n'] in vfields:
            val = value[vfields.index(f['n'])]
            if I.prog.kind(f['t']) == 'ptr' and isinstance(cur, Ptr):
                ctx.store_(cur, val)
            else:
                ctx.store_(Ptr(p.cell, p.path + (i,)), val)
    if not done:
        if len(aux) == len(value):
            ctx.store_(p, value)
        else:
            raise Inconclusive('DecodeElement: no alias target found')
    return None


# ------------------------------------------------------------------ token-level text elements (comment splitting)
# verifTextElement(local, space, pieces) is the text  <local xmlns="space">p0<!--c-->p1<!--c-->...pn</local> .
# Unmarshalling it into a type with its own UnmarshalXML runs that method against a decoder that yields the
# tokens (CharData / Comment / EndElement); into a plain struct it follows encoding/xml's documented rule for a
# ",chardata" field: the character data of the element, accumulated over all its text tokens.

XMLP = 'encoding/xml.'


@intrinsic('verifTextElement')
def i_text_element(I, args, ins):
    ctx = I.ctx
    pieces = I.slice_elems(ctx.force(args[2]))
    return tag_bytes(I, ('xmltext', args[0], args[1], list(pieces)), 'xmltext')


def _unmarshal_text_element(I, info, t, ptr):
    ctx = I.ctx
    _, local, space, pieces = info
    fn = I.prog.method('*' + t, 'UnmarshalXML')
    fj = I.prog.funcs.get(fn) if fn else None
    if fj is not None and fj.get('hasbody'):
        toks = []
        for i, pc in enumerate(pieces):
            if i > 0:
                toks.append(('comment',))
            if not (isinstance(pc, str) and pc == ''):
                toks.append(('chardata', pc))
        toks.append(('end', space, local))
        dec = ctx.alloc(StructV([]), 'xml.Decoder')
        ctx.ghost.setdefault('xmltokens', {})[dec.cell] = toks
        NT = XMLP + 'Name'
        name = I.prog.zero(NT).with_field(I.prog.field_index(NT, 'Space'), space).with_field(I.prog.field_index(NT, 'Local'), local)
        ST = XMLP + 'StartElement'
        start = I.prog.zero(ST).with_field(I.prog.field_index(ST, 'Name'), name)
        return I.call_function(fn, [ptr, dec, start], None)
    if I.prog.kind(t) != 'struct':
        raise Inconclusive('text element into %s' % t)
    v = I.prog.zero(t)
    done = False
    for i, f in enumerate(I.prog.fields(t)):
        tag = f.get('tag') or ''
        if 'xml:"' in tag and ',chardata' in tag.split('xml:"', 1)[1].split('"', 1)[0]:
            text = pieces[0] if pieces else ''
            for pc in pieces[1:]:
                text = _concat(text, pc)
            v = v.with_field(i, text)
            done = True
        elif f['n'] == 'XMLName':
            NT = XMLP + 'Name'
            v = v.with_field(i, I.prog.zero(NT).with_field(I.prog.field_index(NT, 'Space'), space).with_field(I.prog.field_index(NT, 'Local'), local))
    if not done:
        raise Inconclusive('text element into a struct without a chardata field')
    ctx.store_(ptr, v)
    return None


def _concat(a, b):
    if isinstance(a, str) and isinstance(b, str):
        return a + b
    if isinstance(a, str) and a == '':
        return b
    if isinstance(b, str) and b == '':
        return a
    return z3.Concat(zstr(a), zstr(b))


def _tokens(I, dec):
    dec = I.ctx.force(dec)
    return I.ctx.ghost.get('xmltokens', {}).get(dec.cell if dec is not None else None)


@stub('(*encoding/xml.Decoder).Token', '(*encoding/xml.Decoder).RawToken')
def xml_decoder_token(I, args, ins):
    ctx = I.ctx
    toks = _tokens(I, args[0])
    if toks is None:
        raise Inconclusive('xml.Decoder.Token on an unmodelled decoder')
    if not toks:
        if 'io.EOF' in I.prog.globals:
            return TupleV((None, ctx.load(I.global_ptr('io.EOF'))))
        return TupleV((None, ctx.new_error('io', msg='EOF')))
    t = toks.pop(0)
    if t[0] == 'chardata':
        s = t[1]
        val = I.make_slice([ord(c) for c in s]) if isinstance(s, str) else SymBytes(s)
        return TupleV((Iface(XMLP + 'CharData', val), None))
    if t[0] == 'comment':
        return TupleV((Iface(XMLP + 'Comment', I.make_slice([ord(c) for c in ' c '])), None))
    NT = XMLP + 'Name'
    name = I.prog.zero(NT).with_field(I.prog.field_index(NT, 'Space'), t[1]).with_field(I.prog.field_index(NT, 'Local'), t[2])
    ET = XMLP + 'EndElement'
    return TupleV((Iface(ET, I.prog.zero(ET).with_field(I.prog.field_index(ET, 'Name'), name)), None))


@stub('(*encoding/xml.Decoder).Skip')
def xml_decoder_skip(I, args, ins):
    toks = _tokens(I, args[0])
    if toks is None:
        raise Inconclusive('xml.Decoder.Skip on an unmodelled decoder')
    while toks:
        t = toks.pop(0)
        if t[0] == 'end':
            break
    return None


def _no_hook(I, info, t, ptr):
    return NotImplemented


UNMARSHAL_ELEMENT_HOOK = _no_hook


@stub('encoding/xml.Marshal', 'encoding/xml.MarshalIndent')
def xml_marshal(I, args, ins):
    ctx = I.ctx
    v = ctx.force(args[0])
    if isinstance(v, Iface):
        if I.prog.kind(v.dyn) == 'ptr':
            p = ctx.force(v.val)
            val = ctx.load(p) if p is not None else None
            t = I.prog.elem(v.dyn)
        else:
            val, t = v.val, v.dyn
        return TupleV((tag_bytes(I, ('marshal', t, val), 'xmlbytes'), None))
    return TupleV((tag_bytes(I, ('marshal', None, None), 'xmlbytes'), None))


def install(prog):
    pass
