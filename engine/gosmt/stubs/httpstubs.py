"""net/url and net/http boundary."""
import z3
from ..core import (STUBS, INVOKE_STUBS, FRESH_HOOKS, LAZY_HOOKS, IFACE_CANDS, stub, GoPanic, Inconclusive, zint, zstr, b_and, b_or, b_not, is_sym)
from ..values import *


def url_string_of(I, v):
    ctx = I.ctx
    if isinstance(v, GStructV) and 'str' in v.ghost:
        return v.ghost['str']
    # uninterpreted function of the fields that String() reads
    names = [f['n'] for f in I.prog.fields('net/url.URL')]
    parts = []
    for n, x in zip(names, v):
        x = ctx.force(x) if not isinstance(x, Lazy) else None
        if isinstance(x, str) or (is_sym(x) and z3.is_string(x)):
            parts.append(zstr(x))
    f = z3.Function('url.String', *([z3.StringSort()] * len(parts) + [z3.StringSort()]))
    return f(*parts)


@stub('(*net/url.URL).String')
def url_string(I, args, ins):
    p = I.ctx.force(args[0])
    if p is None:
        raise GoPanic('nil-deref', I.ctx.cur_pos)
    return url_string_of(I, I.ctx.load(p))
