"""net/url and net/http boundary."""
import z3
from ..core import (STUBS, INVOKE_STUBS, FRESH_HOOKS, LAZY_HOOKS, IFACE_CANDS, stub, GoPanic, Inconclusive, zint, zstr, b_and, b_or, b_not, is_sym)
from ..values import *


def url_string_of(I, v):
    ctx = I.ctx
    if isinstance(v, GStructV) and 'str' in v.ghost:
        return v.ghost['str']
    names = [f['n'] for f in I.prog.fields('net/url.URL')]
    d = {n: (ctx.force(x) if not isinstance(x, Lazy) else x) for n, x in zip(names, v)}
    # a parsed URL whose Host was replaced by a symbolic text: scheme://host/path?query with everything else concrete
    if (isinstance(d.get('Scheme'), str) and d['Scheme'] and d.get('Opaque') == '' and d.get('User') is None
            and (is_sym(d.get('Host')) or (isinstance(d.get('Host'), str) and all(ch.isalnum() or ch in '-.:' for ch in d['Host']))) and isinstance(d.get('Path'), str) and d.get('RawPath') == ''
            and (d['Path'] == '' or d['Path'].startswith('/')) and all(ch.isalnum() or ch in '/-._~' for ch in d['Path'])
            and isinstance(d.get('RawQuery'), str) and d.get('Fragment') == '' and d.get('ForceQuery') is False):
        tail = d['Path'] + ('?' + d['RawQuery'] if d['RawQuery'] else '')
        if isinstance(d['Host'], str):
            return d['Scheme'] + '://' + d['Host'] + tail
        return z3.Concat(z3.StringVal(d['Scheme'] + '://'), d['Host'], z3.StringVal(tail)) if tail else z3.Concat(z3.StringVal(d['Scheme'] + '://'), d['Host'])
    # uninterpreted function of the fields that String() reads
    parts = []
    for n, x in zip(names, v):
        x = ctx.force(x) if not isinstance(x, Lazy) else None
        if isinstance(x, str) or (is_sym(x) and z3.is_string(x)):
            parts.append(zstr(x))
    f = z3.Function('url.String', *([z3.StringSort()] * len(parts) + [z3.StringSort()]))
    r = f(*parts)
    if any(z3.is_string_value(p) and p.as_string() != '' for p in parts):
        ctx.add_inv(z3.Length(r) > 0)     # a URL with any non-empty component does not print as the empty string
    return r


def _url_fields(I, p):
    p = I.ctx.force(p)
    if p is None:
        raise GoPanic('nil-deref', I.ctx.cur_pos)
    v = I.ctx.load(p)
    names = [f['n'] for f in I.prog.fields('net/url.URL')]
    return {n: (I.ctx.force(x) if not isinstance(x, Lazy) else x) for n, x in zip(names, v)}


@stub('(*net/url.URL).IsAbs')
def url_is_abs(I, args, ins):
    d = _url_fields(I, args[0])
    return I.eq(d['Scheme'], '') is False if isinstance(d['Scheme'], str) else b_not(I.eq(d['Scheme'], ''))


@stub('(*net/url.URL).RequestURI')
def url_request_uri(I, args, ins):
    """encoded path?query (or opaque?query), "/" for an empty path - exact on concrete fields."""
    d = _url_fields(I, args[0])
    conc = all(isinstance(d.get(k), str) for k in ('Opaque', 'Path', 'RawPath', 'RawQuery', 'Scheme')) and isinstance(d.get('ForceQuery'), bool)
    if conc and d['RawPath'] == '' and all(ch.isalnum() or ch in "/-._~!$&'()*+,;=:@" for ch in d['Path']):
        r = d['Opaque']
        if r == '':
            r = d['Path'] or '/'
        elif r.startswith('//'):
            r = d['Scheme'] + ':' + r
        if d['ForceQuery'] or d['RawQuery'] != '':
            r += '?' + d['RawQuery']
        return r
    parts = [zstr(d[k]) for k in ('Opaque', 'Path', 'RawPath', 'RawQuery') if isinstance(d.get(k), str) or (is_sym(d.get(k)) and z3.is_string(d.get(k)))]
    f = z3.Function('url.RequestURI', *([z3.StringSort()] * len(parts) + [z3.StringSort()]))
    return f(*parts)


@stub('(*net/url.URL).String')
def url_string(I, args, ins):
    p = I.ctx.force(args[0])
    if p is None:
        raise GoPanic('nil-deref', I.ctx.cur_pos)
    return url_string_of(I, I.ctx.load(p))


# ------------------------------------------------------------------ url.Parse (abstract, deterministic in its argument)

SCHEME_CLASSES = ['http', 'https', 'javascript', 'data']


def concat_parts(t):
    if z3.is_app(t) and t.decl().kind() == z3.Z3_OP_SEQ_CONCAT:
        out = []
        for c in t.children():
            out.extend(concat_parts(c))
        return out
    return [t]


def term_scheme(I, s):
    """Structural scheme extraction: exact when the text is prefix ++ colon-free rest."""
    nocolon = I.ctx.ghost.get('nocolon', set())
    parts = concat_parts(s)
    acc = ''
    for p in parts:
        if z3.is_string_value(p):
            acc += p.as_string()
            i = acc.find(':')
            if i >= 0:
                head = acc[:i]
                if i > 0 and head[0].isalpha() and all(ch.isalnum() or ch in '+-.' for ch in head):
                    return head.lower()
                return ''
            if '/' in acc or '?' in acc or '#' in acc:
                return ''
        elif str(p) in nocolon:
            continue
        else:
            return None
    return ''


def url_scheme_of(s):
    """Scheme of a URL text, exact on texts starting with one of the listed schemes or without any colon."""
    zs = zstr(s)
    r = z3.StringVal('')
    for sc in reversed(SCHEME_CLASSES):
        r = z3.If(z3.PrefixOf(z3.StringVal(sc + ':'), zs), z3.StringVal(sc), r)
    return r


@stub('net/url.Parse')
def url_parse(I, args, ins):
    ctx = I.ctx
    s = args[0]
    if isinstance(s, str):
        from urllib.parse import urlsplit
        bad = any(ord(c) < 0x20 or ord(c) == 0x7f for c in s)
        if bad:
            return TupleV((None, ctx.new_error('url', msg='net/url: invalid control character in URL')))
        sc = ''
        i = s.find(':')
        if i > 0 and s[0].isalpha() and all(ch.isalnum() or ch in '+-.' for ch in s[:i]):
            sc = s[:i].lower()
        v = I.prog.zero('net/url.URL')
        rest = s
        frag = ''
        if '#' in rest:
            rest, frag = rest.split('#', 1)
        rq = ''
        force_q = False
        if '?' in rest:
            rest, rq = rest.split('?', 1)
            force_q = rq == ''
        host, path, opaque = '', rest, ''
        if sc:
            rest2 = rest[len(sc) + 1:]
            if rest2.startswith('//'):
                hp = rest2[2:]
                i = hp.find('/')
                host, path = (hp, '') if i < 0 else (hp[:i], hp[i:])
            elif rest2.startswith('/'):
                path = rest2
            else:
                opaque, path = rest2, ''
        elif rest.startswith('//'):
            hp = rest[2:]
            i = hp.find('/')
            host, path = (hp, '') if i < 0 else (hp[:i], hp[i:])
        T = 'net/url.URL'
        for name, val in (('Scheme', sc), ('Opaque', opaque), ('Host', host), ('Path', path), ('RawQuery', rq), ('Fragment', frag), ('ForceQuery', force_q)):
            v = v.with_field(I.prog.field_index(T, name), val)
        return TupleV((ctx.alloc(GStructV(v, {'str': s}), 'url'), None))
    exact = _parse_rope_url(I, s, ins)
    if exact is not None:
        return exact
    okf = z3.Function('url.ParseOK', z3.StringSort(), z3.BoolSort())
    if not ctx.branch(okf(s)):
        return TupleV((None, ctx.new_error('url', msg='parse error')))
    v = ctx.fresh('net/url.URL', 'url')
    fi = I.prog.field_index('net/url.URL', 'Scheme')
    ts = term_scheme(I, s)
    v = v.with_field(fi, ts if ts is not None else z3.simplify(url_scheme_of(s)))
    return TupleV((ctx.alloc(GStructV(v, {'str': s}), 'url'), None))


def _parse_rope_url(I, s, ins):
    """url.Parse of concrete text with a '?' in it followed by a rope of concrete text and escaper output
    (what code that writes a redirect URL by hand produces): everything up to the first '?' is parsed as the
    concrete URL it is, the rest is the raw query. None when the text has another shape."""
    from ..runner import z3_unescape
    parts = concat_parts(s)
    k = 0
    head = ''
    while k < len(parts) and z3.is_string_value(parts[k]):
        head += z3_unescape(parts[k].as_string())
        k += 1
    if k == 0 or k == len(parts):
        return None
    parts = [z3.StringVal(head)] + parts[k:]
    if '?' not in head or '#' in head:
        return None
    for q in parts[1:]:
        if z3.is_string_value(q):
            t = z3_unescape(q.as_string())
            if '#' in t or any(ord(c) < 0x20 or ord(c) == 0x7f for c in t):
                return None
        elif not (z3.is_app(q) and q.decl().name() in ('url.QueryEscape', 'url.PathEscape')):
            return None
    before, after = head.split('?', 1)
    r = url_parse(I, [before], ins)
    up = I.ctx.force(r[0])
    if up is None:
        return None
    v = I.ctx.load(up)
    rq = z3.Concat(*([z3.StringVal(after)] if after else []) + parts[1:]) if (after or len(parts) > 2) else parts[1]
    v = v.with_field(I.prog.field_index('net/url.URL', 'RawQuery'), rq)
    return TupleV((I.ctx.alloc(GStructV(v, {'str': s}), 'url'), None))


# ------------------------------------------------------------------ query strings as ropes
# A query text is a z3 string term whose concat parts are: concrete text, single symbolic bytes
# (str.from_code b), url.QueryEscape(x) applications (x opaque or a concat of symbolic bytes) and opaque strings.
# url.ParseQuery walks the parts the way net/url does, forking on what each symbolic byte is.

import urllib.parse as _up

QE = z3.Function('url.QueryEscape', z3.StringSort(), z3.StringSort())
UNRESERVED = set('ABCDEFGHIJKLMNOPQRSTUVWXYZabcdefghijklmnopqrstuvwxyz0123456789-_.~')


def go_query_escape(s):
    out = []
    for ch in s:
        if ch in UNRESERVED:
            out.append(ch)
        elif ch == ' ':
            out.append('+')
        else:
            out.append('%%%02X' % ord(ch))
    return ''.join(out)


@stub('net/url.QueryEscape')
def url_query_escape(I, args, ins):
    s = args[0]
    if isinstance(s, str):
        return go_query_escape(s)
    return QE(s)


PE = z3.Function('url.PathEscape', z3.StringSort(), z3.StringSort())
PATH_RAW = UNRESERVED | set('$&+=:@')      # what net/url leaves unescaped in a path segment


def go_path_escape(s):
    return ''.join(ch if ch in PATH_RAW else '%%%02X' % ord(ch) for ch in s)


@stub('net/url.PathEscape')
def url_path_escape(I, args, ins):
    s = args[0]
    if isinstance(s, str):
        return go_path_escape(s)
    return PE(s)


def _is_from_code(t):
    return z3.is_app(t) and t.decl().kind() == z3.Z3_OP_STRING_FROM_CODE if hasattr(z3, 'Z3_OP_STRING_FROM_CODE') else (z3.is_app(t) and t.decl().name() == 'str.from_code')


def _atoms(t):
    """Rope atoms of a string term: ('c', ch) / ('b', int term) / ('esc', term) / ('o', term)."""
    out = []
    if isinstance(t, str):
        return [('c', ch) for ch in t]
    for p in concat_parts(t):
        if z3.is_string_value(p):
            from ..runner import z3_unescape
            out.extend(('c', ch) for ch in z3_unescape(p.as_string()))
        elif z3.is_app(p) and p.decl().name() == 'str.from_code':
            out.append(('b', p.arg(0)))
        elif z3.is_app(p) and p.decl().name() == 'url.QueryEscape':
            inner = p.arg(0)
            ia = _atoms(inner)
            if all(a[0] in ('b', 'c') for a in ia):
                for a in ia:
                    if a[0] == 'c':
                        out.extend(('c', ch) for ch in go_query_escape(a[1]))
                    else:
                        out.append(('escb', a[1]))
            else:
                out.append(('esc', inner))
        elif z3.is_app(p) and p.decl().name() == 'url.PathEscape':
            inner = p.arg(0)
            ia = _atoms(inner)
            if all(a[0] in ('b', 'c') for a in ia):
                for a in ia:
                    if a[0] == 'c':
                        out.extend(('c', ch) for ch in go_path_escape(a[1]))
                    else:
                        out.append(('pescb', a[1]))
            else:
                out.append(('pesc', inner))
        else:
            out.append(('o', p))
    return out


def _atoms_to_raw(atoms):
    """The text itself (escape wrappers kept), as opposed to _atoms_to_string (the unescaped reading)."""
    parts, cur = [], ''
    for a in atoms:
        if a[0] == 'c':
            cur += a[1]
            continue
        if cur:
            parts.append(z3.StringVal(cur))
            cur = ''
        if a[0] == 'b':
            parts.append(z3.StrFromCode(a[1]))
        elif a[0] == 'escb':
            parts.append(QE(z3.StrFromCode(a[1])))
        elif a[0] == 'pescb':
            parts.append(PE(z3.StrFromCode(a[1])))
        elif a[0] == 'esc':
            parts.append(QE(a[1]))
        elif a[0] == 'pesc':
            parts.append(PE(a[1]))
        else:
            parts.append(a[1])
    if not parts:
        return cur
    if cur:
        parts.append(z3.StringVal(cur))
    return parts[0] if len(parts) == 1 else z3.Concat(*parts)


def rope_eq(I, x, y):
    """Equality of two texts compared atom by atom when their ropes have the same shape, else by the solver."""
    def norm(t):
        out = []
        for a in _atoms(t):
            if a[0] == 'c' and out and out[-1][0] == 'c':
                out[-1] = ('c', out[-1][1] + a[1])
            else:
                out.append(a)
        return out
    ax, ay = norm(x), norm(y)
    if len(ax) == len(ay) and all(p[0] == q[0] for p, q in zip(ax, ay)):
        conds = []
        for p, q in zip(ax, ay):
            if p[0] == 'c':
                if p[1] != q[1]:
                    return False
            else:
                conds.append(I.eq(p[1], q[1]))
        return b_and(*conds) if conds else True
    return I.eq(x, y)


def _opaque_text_kind(I, t):
    g = I.ctx.ghost
    k = str(t)
    if k in g.get('b64dec', {}) or (k in g.get('string_tag', {}) and g['string_tag'][k][0] == 'b64of'):
        return 'b64'
    if k in g.get('hex', {}):
        return 'hex'
    return None


def rope_replace_all(I, s, old, new):
    """strings.ReplaceAll(s, old, new) for a one-character pattern that is neither '%' nor alphanumeric, position by
    position over the rope; NotImplemented when the text has no rope structure."""
    ctx = I.ctx
    if not (isinstance(old, str) and isinstance(new, str) and len(old) == 1) or old == '%' or old.isalnum():
        return NotImplemented
    at = _atoms(s)
    if all(a[0] == 'o' for a in at):
        return NotImplemented
    out = []
    rep = [('c', ch) for ch in new]
    for a in at:
        k = a[0]
        if k == 'c':
            out.extend(rep if a[1] == old else [a])
        elif k == 'b':
            out.extend(rep if ctx.branch(a[1] == ord(old)) else [a])
        elif k == 'escb':
            if old == '+':
                hit = ctx.branch(a[1] == 0x20)
            elif old in UNRESERVED:
                hit = ctx.branch(a[1] == ord(old))
            else:
                hit = False
            out.extend(rep if hit else [a])
        elif k == 'pescb':
            hit = old in PATH_RAW and ctx.branch(a[1] == ord(old))
            out.extend(rep if hit else [a])
        elif k == 'esc':
            kind = _opaque_text_kind(I, a[1])
            if old == '+' or old in UNRESERVED:
                if kind is None:
                    raise Inconclusive('ReplaceAll over the escape of an opaque string')
            out.append(a)
        elif k == 'o':
            kind = _opaque_text_kind(I, a[1])
            if kind is None or (kind == 'b64' and old in '+/='):
                raise Inconclusive('ReplaceAll over an opaque string')
            out.append(a)
        else:
            raise Inconclusive('ReplaceAll over %s' % k)
    return _atoms_to_raw(out)


def _atoms_to_string(atoms):
    parts = []
    cur = ''
    for a in atoms:
        if a[0] == 'c':
            cur += a[1]
        else:
            if cur:
                parts.append(z3.StringVal(cur))
                cur = ''
            if a[0] in ('b', 'escb'):
                parts.append(z3.StrFromCode(a[1]))
            else:
                parts.append(a[1])
    if cur or not parts:
        if not parts:
            return cur
        parts.append(z3.StringVal(cur))
    if len(parts) == 1:
        return parts[0] if not z3.is_string_value(parts[0]) else parts[0].as_string()
    return z3.Concat(*parts)


HEX = '0123456789abcdefABCDEF'


def parse_query_atoms(I, atoms):
    """Returns (pairs [(key, value)], error flag) following net/url.parseQuery; symbolic raw bytes fork."""
    ctx = I.ctx
    # classify raw symbolic bytes
    norm = []
    for a in atoms:
        if a[0] == 'b':
            b = a[1]
            cls = None
            for ch in '&=;%+#':
                if ctx.branch(b == ord(ch)):
                    cls = ch
                    break
            if cls is not None:
                norm.append(('c', cls))
            else:
                norm.append(('lit', b))      # a byte that is none of the query metacharacters
        elif a[0] == 'escb':
            norm.append(('lit', a[1]))       # escaped byte: unescapes to itself
        elif a[0] == 'pescb':
            # a byte escaped for a path segment: & = + stay raw and are read as query syntax
            b = a[1]
            cls = None
            for ch in '&=+':
                if ctx.branch(b == ord(ch)):
                    cls = ch
                    break
            norm.append(('c', cls) if cls is not None else ('lit', b))
        elif a[0] == 'pesc':
            raise Inconclusive('path-escaped opaque string read as a query')
        elif a[0] == 'esc':
            norm.append(('olit', a[1]))      # escaped opaque string: unescapes to the string
        elif a[0] == 'o':
            # an opaque string inserted raw: assumed free of query metacharacters (base64/hex texts are not; callers escape them)
            norm.append(('oraw', a[1]))
        else:
            norm.append(a)
    pairs = []
    err = False
    segs = [[]]
    for a in norm:
        if a[0] == 'c' and a[1] == '&':
            segs.append([])
        else:
            segs[-1].append(a)
    for seg in segs:
        if any(a[0] == 'c' and a[1] == ';' for a in seg):
            err = True
            continue
        if not seg:
            continue
        k, v, seen = [], [], False
        for a in seg:
            if not seen and a[0] == 'c' and a[1] == '=':
                seen = True
            elif seen:
                v.append(a)
            else:
                k.append(a)
        ku, e1 = _unescape_atoms(k)
        if e1:
            err = True
            continue
        vu, e2 = _unescape_atoms(v)
        if e2:
            err = True
            continue
        pairs.append((_atoms_to_string(ku), _atoms_to_string(vu)))
    return pairs, err


def _unescape_atoms(atoms):
    out = []
    i = 0
    while i < len(atoms):
        a = atoms[i]
        if a[0] == 'c' and a[1] == '%':
            if i + 2 >= len(atoms):
                return out, True
            h1, h2 = atoms[i + 1], atoms[i + 2]
            if h1[0] == 'c' and h2[0] == 'c' and h1[1] in HEX and h2[1] in HEX:
                out.append(('c', chr(int(h1[1] + h2[1], 16))))
                i += 3
                continue
            return out, True
        if a[0] == 'c' and a[1] == '+':
            out.append(('c', ' '))
        elif a[0] == 'lit':
            out.append(('b', a[1]))
        elif a[0] in ('olit', 'oraw'):
            out.append(('o', a[1]))
        else:
            out.append(a)
        i += 1
    return out, False


def make_values(I, pairs):
    """url.Values (map[string][]string) from ordered pairs."""
    ctx = I.ctx
    ents = []
    for k, v in pairs:
        placed = False
        for idx, (ek, ev) in enumerate(ents):
            if ctx.branch(I.eq(ek, k)):
                ents[idx] = (ek, ev + [v])
                placed = True
                break
        if not placed:
            ents.append((k, [v]))
    m = MapRef(ctx.new_cell(tuple((k, I.make_slice(vs)) for k, vs in ents), 'url.Values'))
    return m


@stub('net/url.ParseQuery')
def url_parse_query(I, args, ins):
    q = args[0]
    pairs, err = parse_query_atoms(I, _atoms(q))
    m = make_values(I, pairs)
    return TupleV((m, I.ctx.new_error('url', msg='invalid semicolon separator or escape in query') if err else None))


@stub('(*net/url.URL).Query')
def url_query(I, args, ins):
    ctx = I.ctx
    u = ctx.load(ctx.force(args[0]))
    rq = u[I.prog.field_index('net/url.URL', 'RawQuery')]
    pairs, err = parse_query_atoms(I, _atoms(rq))
    return make_values(I, pairs)


def _values_entries(I, m):
    ctx = I.ctx
    m = ctx.force(m)
    return list(ctx.store[m.cell]) if m is not None else []


@stub('(net/url.Values).Get')
def values_get(I, args, ins):
    ctx = I.ctx
    for k, vs in _values_entries(I, args[0]):
        if ctx.branch(I.eq(k, args[1])):
            el = I.slice_elems(vs)
            return el[0] if el else ''
    return ''


@stub('(net/url.Values).Set')
def values_set(I, args, ins):
    ctx = I.ctx
    m = ctx.force(args[0])
    if m is None:
        raise GoPanic('assignment-to-nil-map', ctx.cur_pos)
    ents = list(ctx.store[m.cell])
    for i, (k, vs) in enumerate(ents):
        if ctx.branch(I.eq(k, args[1])):
            ents[i] = (k, I.make_slice([args[2]]))
            ctx.store[m.cell] = tuple(ents)
            return None
    ents.append((args[1], I.make_slice([args[2]])))
    ctx.store[m.cell] = tuple(ents)
    return None


@stub('(net/url.Values).Add')
def values_add(I, args, ins):
    ctx = I.ctx
    m = ctx.force(args[0])
    ents = list(ctx.store[m.cell])
    for i, (k, vs) in enumerate(ents):
        if ctx.branch(I.eq(k, args[1])):
            ents[i] = (k, I.make_slice(I.slice_elems(vs) + [args[2]]))
            ctx.store[m.cell] = tuple(ents)
            return None
    ents.append((args[1], I.make_slice([args[2]])))
    ctx.store[m.cell] = tuple(ents)
    return None


@stub('(net/url.Values).Del')
def values_del(I, args, ins):
    ctx = I.ctx
    m = ctx.force(args[0])
    ctx.store[m.cell] = tuple((k, v) for (k, v) in ctx.store[m.cell] if not ctx.branch(I.eq(k, args[1])))
    return None


@stub('(net/url.Values).Has')
def values_has(I, args, ins):
    ctx = I.ctx
    for k, vs in _values_entries(I, args[0]):
        if ctx.branch(I.eq(k, args[1])):
            return True
    return False


@stub('(net/url.Values).Encode')
def values_encode(I, args, ins):
    ents = _values_entries(I, args[0])
    if not all(isinstance(k, str) for k, _ in ents):
        raise Inconclusive('url.Values.Encode with symbolic keys')
    parts = []
    for k, vs in sorted(ents, key=lambda e: e[0].encode('latin-1')):
        for v in I.slice_elems(vs):
            if parts:
                parts.append('&')
            parts.append(go_query_escape(k) + '=')
            parts.append(go_query_escape(v) if isinstance(v, str) else QE(v))
    if not parts:
        return ''
    if all(isinstance(p, str) for p in parts):
        return ''.join(parts)
    zs = [zstr(p) for p in parts]
    return z3.Concat(*zs)


# ------------------------------------------------------------------ net/http: requests, contexts, reply helpers
from ..runner import intrinsic
from ..core import OPAQUE_IMPLEMENTS, TupleV as _T

HTTPREQ = 'net/http.Request'
COOKIE = 'net/http.Cookie'


def _req_ghost(I, p):
    ctx = I.ctx
    p = ctx.force(p)
    if p is None:
        raise GoPanic('nil-deref', ctx.cur_pos)
    return ctx.ghost.setdefault('requests', {}).setdefault(p.cell, {'form': None, 'cookies': [], 'ctx': None})


@intrinsic('verifRequest')
def i_request(I, args, ins):
    ctx = I.ctx
    method, rawurl, form, cookies = args
    r = url_parse(I, [rawurl], ins)
    if ctx.force(r[1]) is not None:
        ctx.assume(False)
    v = I.prog.zero(HTTPREQ)
    for name, val in (('Method', method), ('URL', r[0]), ('Header', MapRef(ctx.new_cell((), 'header'))), ('RequestURI', rawurl)):
        v = v.with_field(I.prog.field_index(HTTPREQ, name), val)
    p = ctx.alloc(v, 'request')
    g = _req_ghost(I, p)
    g['form'] = ctx.force(form)
    g['cookies'] = [ctx.force(c) for c in I.slice_elems(cookies)]
    return p


@stub('(*net/http.Request).ParseForm')
def req_parseform(I, args, ins):
    ctx = I.ctx
    p = ctx.force(args[0])
    g = _req_ghost(I, p)
    if ctx.opts.get('parseform_may_fail') and ctx.choose(2, 'parseform-err') == 1:
        return ctx.new_error('http', msg='invalid URL escape in form')
    r = ctx.load(p)
    fi, pi = I.prog.field_index(HTTPREQ, 'Form'), I.prog.field_index(HTTPREQ, 'PostForm')
    if ctx.force(r[fi]) is not None:
        return None
    post = tuple(ctx.store[g['form'].cell]) if g['form'] is not None else ()
    u = ctx.load(ctx.force(r[I.prog.field_index(HTTPREQ, 'URL')]))
    qpairs, _ = parse_query_atoms(I, _atoms(u[I.prog.field_index('net/url.URL', 'RawQuery')]))
    allv = list(post)
    q = make_values(I, qpairs)
    for k, vs in ctx.store[q.cell]:
        placed = False
        for i, (ek, ev) in enumerate(allv):
            if ctx.branch(I.eq(ek, k)):
                allv[i] = (ek, I.make_slice(I.slice_elems(ev) + I.slice_elems(vs)))
                placed = True
                break
        if not placed:
            allv.append((k, vs))
    r = r.with_field(pi, MapRef(ctx.new_cell(post, 'PostForm'))).with_field(fi, MapRef(ctx.new_cell(tuple(allv), 'Form')))
    ctx.store_(p, r)
    return None


def _copy_cookie(I, c):
    return I.ctx.alloc(I.ctx.load(c), 'cookie')


@stub('(*net/http.Request).Cookies')
def req_cookies(I, args, ins):
    g = _req_ghost(I, args[0])
    return I.make_slice([_copy_cookie(I, c) for c in g['cookies']]) if g['cookies'] else Slice(I.ctx.alloc((), 'cookies'), 0, 0, 0)


@stub('(*net/http.Request).Cookie')
def req_cookie(I, args, ins):
    ctx = I.ctx
    g = _req_ghost(I, args[0])
    ni = I.prog.field_index(COOKIE, 'Name')
    for c in g['cookies']:
        if ctx.branch(I.eq(ctx.load(c)[ni], args[1])):
            return TupleV((_copy_cookie(I, c), None))
    return TupleV((None, ctx.load(I.global_ptr('net/http.ErrNoCookie'))))


@stub('(*net/http.Request).AddCookie')
def req_addcookie(I, args, ins):
    g = _req_ghost(I, args[0])
    g['cookies'] = g['cookies'] + [I.ctx.force(args[1])]
    return None


OPAQUE_IMPLEMENTS['*verif.ctx'] = {'context.Context'}


def _new_ctx(I, parent, key, val):
    ctx = I.ctx
    p = ctx.alloc(StructV([]), 'context')
    ctx.ghost.setdefault('contexts', {})[p.cell] = (parent, key, val)
    return Iface('*verif.ctx', p)


@stub('context.Background', 'context.TODO')
def ctx_background(I, args, ins):
    return _new_ctx(I, None, None, None)


@stub('context.WithValue')
def ctx_with_value(I, args, ins):
    return _new_ctx(I, I.ctx.force(args[0]), args[1], args[2])


def _ctx_value(I, recv, args, ins):
    ctx = I.ctx
    cur = recv
    n = 0
    while cur is not None and n < 50:
        parent, key, val = ctx.ghost['contexts'][cur.cell]
        if key is not None and ctx.branch(I.eq(key, args[0])):
            return val
        cur = parent.val if isinstance(parent, Iface) else None
        n += 1
    return None


INVOKE_STUBS[('*verif.ctx', 'Value')] = _ctx_value
INVOKE_STUBS[('*verif.ctx', 'Done')] = lambda I, recv, args, ins: None
INVOKE_STUBS[('*verif.ctx', 'Err')] = lambda I, recv, args, ins: None


@stub('(*net/http.Request).Context')
def req_context(I, args, ins):
    g = _req_ghost(I, args[0])
    if g['ctx'] is None:
        g['ctx'] = _new_ctx(I, None, None, None)
    return g['ctx']


@stub('(*net/http.Request).WithContext')
def req_with_context(I, args, ins):
    ctx = I.ctx
    p = ctx.force(args[0])
    g = _req_ghost(I, p)
    np = ctx.alloc(ctx.load(p), 'request')
    ng = _req_ghost(I, np)
    ng.update({'form': g['form'], 'cookies': list(g['cookies']), 'ctx': ctx.force(args[1])})
    return np


def canonical_header(k):
    return '-'.join(w[:1].upper() + w[1:].lower() for w in k.split('-')) if isinstance(k, str) else k


def _hdr(I, h):
    h = I.ctx.force(h)
    if h is None:
        raise GoPanic('assignment-to-nil-map', I.ctx.cur_pos)
    return h


@stub('(net/http.Header).Set')
def header_set(I, args, ins):
    return values_set(I, [_hdr(I, args[0]), canonical_header(args[1]), args[2]], ins)


@stub('(net/http.Header).Add')
def header_add(I, args, ins):
    return values_add(I, [_hdr(I, args[0]), canonical_header(args[1]), args[2]], ins)


@stub('(net/http.Header).Get')
def header_get(I, args, ins):
    return values_get(I, [args[0], canonical_header(args[1])], ins)


@stub('(net/http.Header).Del')
def header_del(I, args, ins):
    return values_del(I, [_hdr(I, args[0]), canonical_header(args[1])], ins)


@stub('(net/http.Header).Values')
def header_values(I, args, ins):
    ctx = I.ctx
    for k, vs in _values_entries(I, args[0]):
        if ctx.branch(I.eq(k, canonical_header(args[1]))):
            return vs
    return NIL_SLICE


def _writer_key(I, w):
    w = I.ctx.force(w)
    if isinstance(w, Iface):
        v = I.ctx.force(w.val)
        if isinstance(v, Ptr):
            return v.cell
    raise Inconclusive('response writer %r' % (w,))


@stub('net/http.SetCookie')
def http_setcookie(I, args, ins):
    ctx = I.ctx
    w, c = ctx.force(args[0]), ctx.force(args[1])
    if c is None:
        raise GoPanic('nil-deref', ctx.cur_pos)
    cp = ctx.alloc(ctx.load(c), 'setcookie')
    ctx.ghost.setdefault('setcookies', {}).setdefault(_writer_key(I, w), []).append(cp)
    h = I.invoke(w, 'Header', [], ins)
    s = ctx.fresh_str('set-cookie')
    values_add(I, [h, 'Set-Cookie', s], ins)
    return None


@intrinsic('verifSetCookies')
def i_setcookies(I, args, ins):
    ctx = I.ctx
    cs = ctx.ghost.get('setcookies', {}).get(_writer_key(I, args[0]), [])
    return I.make_slice(list(cs)) if cs else NIL_SLICE


STATUS_TEXT = {200: 'OK', 302: 'Found', 303: 'See Other', 400: 'Bad Request', 401: 'Unauthorized', 403: 'Forbidden', 404: 'Not Found',
               405: 'Method Not Allowed', 500: 'Internal Server Error', 301: 'Moved Permanently', 307: 'Temporary Redirect'}


@stub('net/http.StatusText')
def http_statustext(I, args, ins):
    c = args[0]
    if isinstance(c, int):
        return STATUS_TEXT.get(c, '')
    f = z3.Function('http.StatusText', z3.IntSort(), z3.StringSort())
    return f(c)


@stub('net/http.Redirect')
def http_redirect(I, args, ins):
    """Location header (the target as given: callers pass absolute paths or absolute URLs), then the status."""
    w, r, u, code = args
    w = I.ctx.force(w)
    h = I.invoke(w, 'Header', [], ins)
    values_set(I, [h, 'Location', u], ins)
    I.invoke(w, 'WriteHeader', [code], ins)
    return None


@stub('net/http.Error')
def http_error(I, args, ins):
    w, msg, code = args
    w = I.ctx.force(w)
    h = I.invoke(w, 'Header', [], ins)
    values_set(I, [h, 'Content-Type', 'text/plain; charset=utf-8'], ins)
    values_set(I, [h, 'X-Content-Type-Options', 'nosniff'], ins)
    I.invoke(w, 'WriteHeader', [code], ins)
    body = I.make_slice(I.string_bytes(msg) if isinstance(msg, str) else [I.ctx.fresh_int('errbody', 'uint8')])
    I.invoke(w, 'Write', [body], ins)
    return None


@stub('net/http.NotFound')
def http_notfound(I, args, ins):
    return http_error(I, [args[0], '404 page not found', 404], ins)


@stub('(net/http.HandlerFunc).ServeHTTP')
def handlerfunc_serve(I, args, ins):
    return I.call_value(args[0], [args[1], args[2]], ins)


@stub('net/http.NotFoundHandler')
def http_notfoundhandler(I, args, ins):
    return Iface('net/http.HandlerFunc', PyFunc(lambda I2, a, i: http_error(I2, [a[0], '404 page not found', 404], i), 'notfound'))


@stub('net.SplitHostPort')
def net_splithostport(I, args, ins):
    ctx = I.ctx
    s = args[0]
    if isinstance(s, str):
        i = s.rfind(':')
        if i < 0 or ']' in s[i:]:
            return TupleV(('', '', ctx.new_error('net', msg='missing port in address')))
        return TupleV((s[:i].strip('[]'), s[i + 1:], None))
    if ctx.choose(2, 'splithostport') == 1:
        return TupleV(('', '', ctx.new_error('net', msg='missing port in address')))
    return TupleV((ctx.fresh_str('host'), ctx.fresh_str('port'), None))


@stub('(*net/url.URL).Hostname')
def url_hostname(I, args, ins):
    u = I.ctx.load(I.ctx.force(args[0]))
    h = u[I.prog.field_index('net/url.URL', 'Host')]
    if isinstance(h, str):
        i = h.rfind(':')
        return h[:i] if i >= 0 and ']' not in h[i:] else h
    f = z3.Function('url.Hostname', z3.StringSort(), z3.StringSort())
    return f(h)


@stub('(*net/url.URL).ResolveReference')
def url_resolve_reference(I, args, ins):
    """Exact for a concrete base and a reference that is only a relative Path (the way samlsp.New uses it)."""
    ctx = I.ctx
    base = ctx.load(ctx.force(args[0]))
    ref = ctx.load(ctx.force(args[1]))
    T = 'net/url.URL'
    g = lambda v, n: v[I.prog.field_index(T, n)]
    bs = url_string_of(I, base)
    rp = g(ref, 'Path')
    if isinstance(bs, str) and isinstance(rp, str) and g(ref, 'Scheme') == '' and g(ref, 'Host') == '':
        import urllib.parse as up
        r = url_parse(I, [up.urljoin(bs, rp)], ins)
        return r[0]
    raise Inconclusive('ResolveReference on symbolic URLs')


# ------------------------------------------------------------------ request bodies, path values, json, templates, bcrypt
from .xmlstubs import tag_bytes as _tag_bytes, bytes_info as _bytes_info

OPAQUE_IMPLEMENTS['*verif.body'] = {'io.ReadCloser', 'io.Reader', 'io.Closer'}
INVOKE_STUBS[('*verif.body', 'Close')] = lambda I, recv, args, ins: None


@intrinsic('verifRequestBody')
def i_request_body(I, args, ins):
    ctx = I.ctx
    method, rawurl, body, cookies = args
    p = i_request(I, [method, rawurl, None, cookies], ins)
    b = ctx.alloc(StructV([]), 'body')
    ctx.ghost.setdefault('readers', {})[b.cell] = ('bytes', ctx.force(body))
    r = ctx.load(p)
    ctx.store_(p, r.with_field(I.prog.field_index(HTTPREQ, 'Body'), Iface('*verif.body', b)))
    return p


# ---- outgoing requests: http.NewRequestWithContext + a client whose reply the harness fixes (verifHTTPClient)

@stub('net/http.NewRequestWithContext', 'net/http.NewRequest')
def http_new_request(I, args, ins):
    ctx = I.ctx
    if len(args) == 4:
        cx, method, rawurl, body = args
    else:
        cx, (method, rawurl, body) = None, args
    r = url_parse(I, [rawurl], ins)
    if ctx.force(r[1]) is not None:
        return TupleV((None, r[1]))
    p = i_request(I, [method, rawurl, None, NIL_SLICE], ins)
    req = ctx.load(p)
    ctx.store_(p, req.with_field(I.prog.field_index(HTTPREQ, 'Body'), ctx.force(body)))
    if cx is not None:
        _req_ghost(I, p)['ctx'] = ctx.force(cx)
    return TupleV((p, None))


HTTPRESP = 'net/http.Response'


@intrinsic('verifHTTPClient')
def i_http_client(I, args, ins):
    """verifHTTPClient(fail, status, body): a client whose every Do fails, or answers with that status and body."""
    ctx = I.ctx
    p = ctx.alloc(I.prog.zero('net/http.Client'), 'httpclient')
    ctx.ghost.setdefault('httpclients', {})[p.cell] = {'fail': args[0], 'status': args[1], 'body': ctx.force(args[2]), 'calls': []}
    return p


@stub('(*net/http.Client).Do')
def http_client_do(I, args, ins):
    ctx = I.ctx
    c = ctx.force(args[0])
    if c is None:
        raise GoPanic('nil-deref', ctx.cur_pos)
    g = ctx.ghost.get('httpclients', {}).get(c.cell)
    if g is None:
        raise Inconclusive('http.Client.Do on a client the harness did not provide')
    g['calls'].append(ctx.force(args[1]))
    ctx.event('http.Do')
    if ctx.branch(g['fail']):
        return TupleV((None, ctx.new_error('http', msg='connection refused')))
    b = ctx.alloc(StructV([]), 'body')
    ctx.ghost.setdefault('readers', {})[b.cell] = ('bytes', g['body'])
    resp = I.prog.zero(HTTPRESP)
    for name, val in (('StatusCode', g['status']), ('Status', 'status'), ('Body', Iface('*verif.body', b)),
                      ('Header', MapRef(ctx.new_cell((), 'header')))):
        resp = resp.with_field(I.prog.field_index(HTTPRESP, name), val)
    return TupleV((ctx.alloc(resp, 'response'), None))


@intrinsic('verifHTTPCalls')
def i_http_calls(I, args, ins):
    g = I.ctx.ghost.get('httpclients', {}).get(I.ctx.force(args[0]).cell)
    return len(g['calls'])


@stub('io.LimitReader')
def io_limit_reader(I, args, ins):
    # contents handed to the harness's client are far below any limit the code sets
    return args[0]


@stub('(*net/http.Request).SetPathValue')
def req_setpathvalue(I, args, ins):
    g = _req_ghost(I, args[0])
    g.setdefault('path', []).append((args[1], args[2]))
    return None


@stub('(*net/http.Request).PathValue')
def req_pathvalue(I, args, ins):
    ctx = I.ctx
    g = _req_ghost(I, args[0])
    for k, v in reversed(g.get('path', [])):
        if ctx.branch(I.eq(k, args[1])):
            return v
    return ''


# encoding/json as an encoder/decoder pair over tagged bytes (same-type round trip is the identity)

def _json_value(I, v):
    ctx = I.ctx
    v = ctx.force(v)
    if not isinstance(v, Iface):
        return (None, None)
    if I.prog.kind(v.dyn) == 'ptr':
        p = ctx.force(v.val)
        t = I.prog.elem(v.dyn)
        val = ctx.load(p) if p is not None else None
        while val is not None and I.prog.kind(t) == 'ptr':
            val = ctx.force(val)
            t = I.prog.elem(t)
            val = ctx.load(val) if val is not None else None
        return (t, val)
    return (v.dyn, v.val)


@stub('encoding/json.Marshal')
def json_marshal(I, args, ins):
    t, val = _json_value(I, args[0])
    return TupleV((_tag_bytes(I, ('json', t, val), 'json'), None))


@stub('encoding/json.NewEncoder')
def json_new_encoder(I, args, ins):
    ctx = I.ctx
    p = ctx.alloc(StructV([]), 'json.Encoder')
    ctx.ghost.setdefault('jsonenc', {})[p.cell] = ctx.force(args[0])
    return p


@stub('(*encoding/json.Encoder).Encode')
def json_encode(I, args, ins):
    ctx = I.ctx
    w = ctx.ghost['jsonenc'][ctx.force(args[0]).cell]
    t, val = _json_value(I, args[1])
    buf = _tag_bytes(I, ('json', t, val), 'json')
    ctx.ghost.setdefault('json_written', []).append((t, val))
    r = I.invoke(w, 'Write', [buf], ins)
    return ctx.force(r[1])


def _store_through(I, tgt, st, sv):
    """Store value sv (of type st) through target pointer tgt (*T or **T), allocating as encoding does."""
    ctx = I.ctx
    t = I.prog.elem(tgt.dyn)
    p = ctx.force(tgt.val)
    while I.prog.kind(t) == 'ptr':
        inner = ctx.force(ctx.load(p))
        et = I.prog.elem(t)
        if inner is None:
            inner = ctx.alloc(I.prog.zero(et), 'decoded')
            ctx.store_(p, inner)
        p, t = inner, et
    if st != t:
        return False
    ctx.store_(p, sv)
    return True


@stub('encoding/json.Unmarshal')
def json_unmarshal(I, args, ins):
    ctx = I.ctx
    info = _bytes_info(I, args[0])
    tgt = ctx.force(args[1])
    if info is not None and info[0] == 'json' and isinstance(tgt, Iface) and I.prog.kind(tgt.dyn) == 'ptr':
        if info[2] is not None and _store_through(I, tgt, info[1], info[2]):
            return None
        return ctx.new_error('json', msg='json: cannot unmarshal into target type')
    if ctx.choose(2, 'json-err') == 1:
        return ctx.new_error('json', msg='invalid character')
    t = I.prog.elem(tgt.dyn)
    ctx.store_(ctx.force(tgt.val), ctx.fresh(t, 'json'))
    return None


@stub('encoding/json.NewDecoder')
def json_new_decoder(I, args, ins):
    ctx = I.ctx
    p = ctx.alloc(StructV([]), 'json.Decoder')
    ctx.ghost.setdefault('jsondec', {})[p.cell] = ctx.force(args[0])
    return p


@stub('(*encoding/json.Decoder).Decode')
def json_decode(I, args, ins):
    ctx = I.ctx
    r = ctx.ghost['jsondec'][ctx.force(args[0]).cell]
    kind, c = reader_content_(I, r)
    if kind == 'bytes':
        return json_unmarshal(I, [c, args[1]], ins)
    if ctx.choose(2, 'json-err') == 1:
        return ctx.new_error('json', msg='invalid character')
    tgt = ctx.force(args[1])
    ctx.store_(ctx.force(tgt.val), ctx.fresh(I.prog.elem(tgt.dyn), 'json'))
    return None


def reader_content_(I, r):
    from .base import reader_content
    return reader_content(I, r)


# html/template: output is escaped(template, data); text/template is not an escaping template

@stub('(*html/template.Template).Execute')
def html_template_execute(I, args, ins):
    ctx = I.ctx
    tmpl, w, data = args
    data = ctx.force(data)
    fields_ok = True
    dv = None
    if isinstance(data, Iface):
        t = data.dyn
        dv = data.val
        if I.prog.kind(t) == 'ptr':
            t = I.prog.elem(t)
            dv = ctx.load(ctx.force(dv))
        if I.prog.kind(t) == 'struct':
            for f in I.prog.fields(t):
                if f['t'] != 'string':
                    fields_ok = False
    dt = data.dyn if isinstance(data, Iface) else None
    if dt is not None and I.prog.kind(dt) == 'ptr':
        dt = I.prog.elem(dt)
    text = _template_text(I, tmpl)
    if isinstance(text, str) and dt is not None and I.prog.kind(dt) == 'struct':
        # every value the template text pulls out of the data must be one of those plain string fields: a method
        # (or a field of another type) can hand the escaper a value typed as already-safe content
        import re as _re3
        plain = set(f['n'] for f in I.prog.fields(dt) if f['t'] == 'string')
        for act in _re3.findall(r'\{\{(.*?)\}\}', text, _re3.S):
            for nm in _re3.findall(r'\.(\w+)', act):
                if nm not in plain:
                    fields_ok = False
    ctx.ghost.setdefault('templates', []).append({'kind': 'html', 'data': dv, 'dtype': dt, 'plain_string_fields': fields_ok})
    body = _tag_bytes(I, ('html-escaped', dt, dv, text, fields_ok), 'html')
    r = I.invoke(ctx.force(w), 'Write', [body], ins)
    return ctx.force(r[1])


@stub('(*text/template.Template).Execute')
def text_template_execute(I, args, ins):
    ctx = I.ctx
    tmpl, w, data = args
    data = ctx.force(data)
    dv = None
    if isinstance(data, Iface):
        dv = data.val
        if I.prog.kind(data.dyn) == 'ptr':
            dv = ctx.load(ctx.force(dv))
    dt = data.dyn if isinstance(data, Iface) else None
    if dt is not None and I.prog.kind(dt) == 'ptr':
        dt = I.prog.elem(dt)
    ctx.ghost.setdefault('templates', []).append({'kind': 'text', 'data': dv, 'plain_string_fields': True})
    body = _tag_bytes(I, ('text-unescaped', dt, dv, _template_text(I, tmpl), True), 'rawhtml')
    r = I.invoke(ctx.force(w), 'Write', [body], ins)
    return ctx.force(r[1])


def _template_text(I, tmpl):
    p = I.ctx.force(tmpl)
    if isinstance(p, Ptr):
        return (I.ctx.ghost.get('template_objs', {}).get(p.cell) or {}).get('text')
    return None


def _body_tag(I, body):
    ctx = I.ctx
    for e in I.slice_elems(body):
        info = ctx.ghost.get('bytes_tag_term', {}).get(str(e)) if is_sym(e) else None
        if info is not None and info[0] in ('html-escaped', 'text-unescaped'):
            return info
    return None


@intrinsic('verifFormInert')
def i_form_inert(I, args, ins):
    """The emitted form came out of an html/template whose data has only plain string fields."""
    info = _body_tag(I, args[0])
    return info is not None and info[0] == 'html-escaped' and bool(info[4])


@intrinsic('verifFormField')
def i_form_field(I, args, ins):
    """Value bound to the form's action (name "action") or to the hidden input `name`, read from the template text."""
    import re as _re2
    info = _body_tag(I, args[0])
    name = args[1]
    if info is None or not isinstance(info[3], str) or not isinstance(name, str):
        return TupleV(('', False))
    text = info[3]
    if name == 'action':
        m = _re2.search(r'action="\{\{\.(\w+)\}\}"', text)
    else:
        m = _re2.search(r'name="%s"[^>]*value="\{\{\.(\w+)\}\}"' % _re2.escape(name), text)
    if m is None:
        return TupleV(('', False))
    fields = [f['n'] for f in I.prog.fields(info[1])]
    if m.group(1) not in fields:
        return TupleV(('', False))
    return TupleV((info[2][fields.index(m.group(1))], True))


@stub('html/template.Must', 'text/template.Must')
def template_must(I, args, ins):
    if I.ctx.force(args[1]) is not None:
        raise GoPanic('explicit', I.ctx.cur_pos, args[1])
    return args[0]


@stub('html/template.New', 'text/template.New')
def template_new(I, args, ins):
    ctx = I.ctx
    p = ctx.alloc(StructV([]), 'template')
    ctx.ghost.setdefault('template_objs', {})[p.cell] = {'pkg': ins['call']['fn']['n'].split('.')[0], 'name': args[0], 'text': None}
    return p


@stub('(*html/template.Template).Parse', '(*text/template.Template).Parse')
def template_parse(I, args, ins):
    ctx = I.ctx
    p = ctx.force(args[0])
    g = ctx.ghost.setdefault('template_objs', {}).setdefault(p.cell, {})
    g['text'] = args[1]
    return TupleV((p, None))


# bcrypt: uninterpreted Match(hash, password)

@stub('golang.org/x/crypto/bcrypt.GenerateFromPassword')
def bcrypt_generate(I, args, ins):
    ctx = I.ctx
    pw = ctx.force(args[0])
    pws = pw.s if isinstance(pw, SymBytes) else I.bytes_string(I.slice_elems(pw))
    if ctx.choose(2, 'bcrypt-gen-err') == 1 and ctx.opts.get('bcrypt_may_fail'):
        return TupleV((NIL_SLICE, ctx.new_error('bcrypt')))
    return TupleV((_tag_bytes(I, ('bcrypt', pws), 'bcrypthash'), None))


@stub('golang.org/x/crypto/bcrypt.CompareHashAndPassword')
def bcrypt_compare(I, args, ins):
    ctx = I.ctx
    info = _bytes_info(I, args[0])
    pw = ctx.force(args[1])
    pws = pw.s if isinstance(pw, SymBytes) else I.bytes_string(I.slice_elems(pw))
    if info is None or info[0] != 'bcrypt':
        return ctx.new_error('bcrypt', msg='crypto/bcrypt: hashedSecret too short to be a bcrypted password')
    if ctx.branch(I.eq(info[1], pws)):
        return None
    return ctx.new_error('bcrypt', msg='crypto/bcrypt: hashedPassword is not the hash of the given password')


@stub('encoding/hex.EncodeToString')
def hex_encode(I, args, ins):
    from .base import hex_of_bytes
    return hex_of_bytes(I, I.slice_elems(args[0]))


@intrinsic('verifIsResponseForm')
def i_is_response_form(I, args, ins):
    ctx = I.ctx
    w = ctx.load(ctx.force(args[0]))
    # the harness writer's Body field: the tagged placeholder bytes of every Write
    body = None
    for v in w:
        if isinstance(v, Slice) and v.base is not None and v.len > 0:
            body = v
    if body is None:
        return False
    for e in I.slice_elems(body):
        info = ctx.ghost.get('bytes_tag_term', {}).get(str(e)) if is_sym(e) else None
        if info is not None and info[0] in ('html-escaped', 'text-unescaped') and info[1] is not None and info[1].endswith('IdpAuthnRequestForm'):
            return True
    return False


@stub('io.Copy')
def io_copy(I, args, ins):
    from .base import io_readall
    ctx = I.ctx
    r = io_readall(I, [args[1]], ins)
    if ctx.force(r[1]) is not None:
        return TupleV((0, r[1]))
    res = I.invoke(ctx.force(args[0]), 'Write', [r[0]], ins)
    return TupleV((res[0], res[1]))
