"""net/url and net/http boundary."""
import z3
from ..core import (STUBS, INVOKE_STUBS, FRESH_HOOKS, LAZY_HOOKS, IFACE_CANDS, stub, GoPanic, Inconclusive, zint, zstr, b_and, b_or, b_not, is_sym)
from ..values import *


def url_string_of(I, v):
    ctx = I.ctx
    if isinstance(v, GStructV) and 'str' in v.ghost:
        return v.ghost['str']
    # uninterpreted function of the fields that String() reads
    names = [f['n'] for f in I.prog.fields('net/url.URL')]
    parts = []
    for n, x in zip(names, v):
        x = ctx.force(x) if not isinstance(x, Lazy) else None
        if isinstance(x, str) or (is_sym(x) and z3.is_string(x)):
            parts.append(zstr(x))
    f = z3.Function('url.String', *([z3.StringSort()] * len(parts) + [z3.StringSort()]))
    return f(*parts)


@stub('(*net/url.URL).String')
def url_string(I, args, ins):
    p = I.ctx.force(args[0])
    if p is None:
        raise GoPanic('nil-deref', I.ctx.cur_pos)
    return url_string_of(I, I.ctx.load(p))


# ------------------------------------------------------------------ url.Parse (abstract, deterministic in its argument)

SCHEME_CLASSES = ['http', 'https', 'javascript', 'data']


def concat_parts(t):
    if z3.is_app(t) and t.decl().kind() == z3.Z3_OP_SEQ_CONCAT:
        out = []
        for c in t.children():
            out.extend(concat_parts(c))
        return out
    return [t]


def term_scheme(I, s):
    """Structural scheme extraction: exact when the text is prefix ++ colon-free rest."""
    nocolon = I.ctx.ghost.get('nocolon', set())
    parts = concat_parts(s)
    acc = ''
    for p in parts:
        if z3.is_string_value(p):
            acc += p.as_string()
            i = acc.find(':')
            if i >= 0:
                head = acc[:i]
                if i > 0 and head[0].isalpha() and all(ch.isalnum() or ch in '+-.' for ch in head):
                    return head.lower()
                return ''
            if '/' in acc or '?' in acc or '#' in acc:
                return ''
        elif str(p) in nocolon:
            continue
        else:
            return None
    return ''


def url_scheme_of(s):
    """Scheme of a URL text, exact on texts starting with one of the listed schemes or without any colon."""
    zs = zstr(s)
    r = z3.StringVal('')
    for sc in reversed(SCHEME_CLASSES):
        r = z3.If(z3.PrefixOf(z3.StringVal(sc + ':'), zs), z3.StringVal(sc), r)
    return r


@stub('net/url.Parse')
def url_parse(I, args, ins):
    ctx = I.ctx
    s = args[0]
    if isinstance(s, str):
        from urllib.parse import urlsplit
        bad = any(ord(c) < 0x20 or ord(c) == 0x7f for c in s)
        if bad:
            return TupleV((None, ctx.new_error('url', msg='net/url: invalid control character in URL')))
        sc = ''
        i = s.find(':')
        if i > 0 and s[0].isalpha() and all(ch.isalnum() or ch in '+-.' for ch in s[:i]):
            sc = s[:i].lower()
        v = ctx.fresh('net/url.URL', 'url')
        fi = I.prog.field_index('net/url.URL', 'Scheme')
        v = v.with_field(fi, sc)
        return TupleV((ctx.alloc(GStructV(v, {'str': s}), 'url'), None))
    okf = z3.Function('url.ParseOK', z3.StringSort(), z3.BoolSort())
    if not ctx.branch(okf(s)):
        return TupleV((None, ctx.new_error('url', msg='parse error')))
    v = ctx.fresh('net/url.URL', 'url')
    fi = I.prog.field_index('net/url.URL', 'Scheme')
    ts = term_scheme(I, s)
    v = v.with_field(fi, ts if ts is not None else z3.simplify(url_scheme_of(s)))
    return TupleV((ctx.alloc(GStructV(v, {'str': s}), 'url'), None))
