"""Symbolic SAML documents: materialisation, etree serialise/parse, goxmldsig sign/validate contracts.

A document is a real etree tree (built by executing etree's own constructors)
whose elements carry marker attributes in the reserved prefix "verif":
  verif:bind = N   unmarshalling this element yields ghost['bind'][N]
  verif:id   = M   identity of the element at signing time
  on a ds:Signature element:  verif:ref = M (element it was made over), verif:key = "kind:id" (signer)
Markers survive Copy(), serialisation and parsing, exactly as real content does.
"""
import z3
from ..core import (STUBS, INVOKE_STUBS, stub, GoPanic, Inconclusive, PathEnd, zint, zstr, b_and, b_or, b_not, is_sym)
from ..values import *
from ..runner import intrinsic
from . import xmlstubs
from .xmlstubs import tag_bytes, bytes_info, decode_into
from .cryptostubs import test_key

ET = 'github.com/beevik/etree.'
EL = '*' + ET + 'Element'
DSIG = 'github.com/russellhaering/goxmldsig.'
NS_SAML = 'urn:oasis:names:tc:SAML:2.0:assertion'
NS_SAMLP = 'urn:oasis:names:tc:SAML:2.0:protocol'
NS_DS = 'http://www.w3.org/2000/09/xmldsig#'


def new_el(I, tag):
    return I.call_function(ET + 'NewElement', [tag])


def set_attr(I, el, key, value):
    I.call_function('(' + EL + ').CreateAttr', [el, key, value])


def add_child(I, el, child):
    I.call_function('(' + EL + ').AddChild', [el, Iface(EL, child)])


def el_struct(I, el):
    return I.ctx.load(I.ctx.force(el))


def el_attrs(I, el):
    """[(space, key, value)] of an element."""
    e = el_struct(I, el)
    out = []
    for a in I.slice_elems(e[2]):
        out.append((a[0], a[1], a[2]))
    return out


def set_marker(I, el, key, value):
    """Marker attributes live in a declared namespace so that namespace-aware code (c14n transforms) accepts them."""
    have = any(sp == 'xmlns' and k == 'verif' for (sp, k, v) in el_attrs(I, el))
    if not have:
        set_attr(I, el, 'xmlns:verif', 'urn:verif:markers')
    set_attr(I, el, 'verif:' + key, value)


def get_marker(I, el, key):
    for (sp, k, v) in el_attrs(I, el):
        if sp == 'verif' and k == key:
            return v
    return None


def child_elements(I, el):
    e = el_struct(I, el)
    out = []
    for t in I.slice_elems(e[3]):
        t = I.ctx.force(t)
        if isinstance(t, Iface) and t.dyn == EL:
            out.append(I.ctx.force(t.val))
    return out


def fld(I, typ, val, name):
    return val[I.prog.field_index(typ, name)]


def new_marker(I, kind):
    n = I.ctx.ghost.setdefault('marker_n', [0])
    n[0] += 1
    return '%s%d' % (kind, n[0])


MS = 1000000


def round_ms(ns):
    if is_sym(ns):
        r = ns % MS
        return z3.If(r + r < MS, ns - r, ns + (MS - r))
    r = ns % MS
    return ns - r if r + r < MS else ns + (MS - r)


def xml_image(I, typ, value, depth=0):
    """The value a struct has after marshalling to XML and unmarshalling again: a deep copy in which
    instants are rounded to the millisecond (RelaxedTime); unresolved lazies are kept (they are arbitrary)."""
    ctx = I.ctx
    p = I.prog
    if isinstance(value, Lazy) and value.id not in ctx.lazy:
        return value
    value = ctx.force(value)
    k = p.kind(typ)
    if k == 'time':
        return TimeV(round_ms(value.ns))
    if k == 'struct' and isinstance(value, StructV):
        return StructV([xml_image(I, f['t'], v, depth + 1) for f, v in zip(p.fields(typ), value)])
    if k == 'ptr' and isinstance(value, Ptr) and depth < 12:
        et = p.elem(typ)
        if et.endswith('etree.Element'):
            return value
        return ctx.alloc(xml_image(I, et, ctx.load(value), depth + 1), 'xmlimg')
    if k == 'slice' and isinstance(value, Slice) and value.base is not None and depth < 12:
        et = p.elem(typ)
        elems = [xml_image(I, et, e, depth + 1) for e in I.slice_elems(value)]
        return Slice(ctx.alloc(tuple(elems), 'xmlimg'), 0, len(elems), len(elems))
    return value


def bind_value(I, el, typ, value):
    value = xml_image(I, typ, value)
    m = new_marker(I, 'b')
    I.ctx.ghost.setdefault('bind', {})[m] = (typ, value)
    set_marker(I, el, 'bind', m)


def attr_value(I, el, key):
    for (sp, k, v) in el_attrs(I, el):
        if sp == '' and k == key:
            return v
    return None


def fingerprint(I, el):
    """Content of an element as the signature digest sees it: names, attributes, text and children,
    without the enveloped Signature, namespace declarations (moved around by exclusive c14n) and markers."""
    e = el_struct(I, el)
    attrs = sorted((sp, k, str(v)) for (sp, k, v) in el_attrs(I, el) if sp not in ('xmlns', 'verif') and not (sp == '' and k == 'xmlns'))
    kids = []
    for t in I.slice_elems(e[3]):
        t = I.ctx.force(t)
        if isinstance(t, Iface) and t.dyn == EL:
            c = I.ctx.force(t.val)
            ce = el_struct(I, c)
            if ce[1] == 'Signature':
                continue
            kids.append(fingerprint(I, c))
        elif isinstance(t, Iface) and t.dyn == '*' + ET + 'CharData':
            kids.append(('text', str(I.ctx.load(I.ctx.force(t.val))[0])))
    return (str(e[0]), str(e[1]), tuple(attrs), tuple(kids))


def cert_b64(key):
    import base64
    return base64.b64encode(('DER:%d:%d' % key).encode()).decode()


def keyinfo_keys(I, sig_el):
    """Keys named by the X509Certificate children of Signature/KeyInfo/X509Data, in order; None = no KeyInfo;
    an entry is None when the certificate text is not one of the modelled certificates."""
    import base64
    ki = None
    for c in child_elements(I, sig_el):
        if el_struct(I, c)[1] == 'KeyInfo':
            ki = c
            break
    if ki is None:
        return None
    out = []
    for xd in child_elements(I, ki):
        if el_struct(I, xd)[1] != 'X509Data':
            continue
        for xc in child_elements(I, xd):
            if el_struct(I, xc)[1] != 'X509Certificate':
                continue
            text = ''
            for t in I.slice_elems(el_struct(I, xc)[3]):
                t = I.ctx.force(t)
                if isinstance(t, Iface) and t.dyn == '*' + ET + 'CharData':
                    d = I.ctx.load(I.ctx.force(t.val))[0]
                    text = d if isinstance(d, str) else None
            k = None
            if isinstance(text, str):
                try:
                    raw = base64.b64decode(''.join(text.split())).decode('latin-1')
                    if raw.startswith('DER:'):
                        _, a, b = raw.split(':')
                        k = (int(a), int(b))
                except Exception:
                    k = None
            out.append(k)
    return out


def make_signature(I, over_el, key, keyinfo=None):
    """ds:Signature element made by `key` (kind,id) over over_el: it references the element by its ID
    attribute, fixes its content (fingerprint) and carries KeyInfo/X509Data with the certificates of the
    keys in `keyinfo` (default: the signer's own certificate, as goxmldsig emits it; [] = no KeyInfo)."""
    ref = attr_value(I, over_el, 'ID')
    if ref is None:
        ref = get_marker(I, over_el, 'id')
        if ref is None:
            ref = new_marker(I, 'e')
            set_marker(I, over_el, 'id', ref)
    sig = new_el(I, 'ds:Signature')
    set_attr(I, sig, 'xmlns:ds', NS_DS)
    n = new_marker(I, 's')
    I.ctx.ghost.setdefault('sigs', {})[n] = {'ref': ref, 'key': key, 'fp': fingerprint(I, over_el)}
    set_marker(I, sig, 'sig', n)
    if keyinfo is None:
        keyinfo = [key]
    if keyinfo:
        ki = new_el(I, 'ds:KeyInfo')
        xd = new_el(I, 'ds:X509Data')
        for k in keyinfo:
            xc = new_el(I, 'ds:X509Certificate')
            I.call_function('(' + EL + ').SetText', [xc, cert_b64(k)])
            add_child(I, xd, xc)
        add_child(I, ki, xd)
        add_child(I, sig, ki)
    return sig


def signature_verdict(I, el, keys):
    """(number of direct-child Signature elements, condition under which one of them is a signature over
    this very element - same ID, same content - made by one of `keys`)."""
    ctx = I.ctx
    cur = attr_value(I, el, 'ID')
    if cur is None:
        cur = get_marker(I, el, 'id')
    nsig = 0
    conds = []
    fp = None
    for c in child_elements(I, el):
        ce = el_struct(I, c)
        if ce[1] != 'Signature':
            continue
        nsig += 1
        n = get_marker(I, c, 'sig')
        rec = ctx.ghost.get('sigs', {}).get(n) if isinstance(n, str) else None
        if rec is None or cur is None:
            continue
        # goxmldsig: with KeyInfo the first certificate in it must be a trusted root and is the key the
        # signature is verified with; without KeyInfo there must be exactly one root and it is used
        ki = keyinfo_keys(I, c)
        if ki is None:
            if len(keys) != 1 or keys[0] != rec['key']:
                continue
        else:
            if not ki or ki[0] is None or ki[0] not in keys or ki[0] != rec['key']:
                continue
        if fp is None:
            fp = fingerprint(I, el)
        if fp != rec['fp']:
            continue
        conds.append(I.eq(rec['ref'], cur))
    return nsig, b_or(*conds) if conds else False


def keyinfo_layout(signer, layout):
    """0: the signer's certificate (goxmldsig default); 1: no KeyInfo; 2: [signer, other]; 3: [other, signer]."""
    me, other = (0, signer), (0, 1 - signer)
    return {0: [me], 1: [], 2: [me, other], 3: [other, me]}[layout]


SAML = 'github.com/crewjam/saml.'


@intrinsic('verifMaterialise')
def i_materialise(I, args, ins):
    return tag_bytes(I, ('serialize', response_element(I, args[0])), 'docbytes')


NS_SOAP = 'http://schemas.xmlsoap.org/soap/envelope/'


@intrinsic('verifMaterialiseArtifact')
def i_materialise_artifact(I, args, ins):
    ctx = I.ctx
    T = SAML + 'verifArtifactDoc'
    ad = ctx.load(ctx.force(args[0]))
    AR = ctx.load(ctx.force(fld(I, T, ad, 'AR')))
    sign = ctx.concretize(fld(I, T, ad, 'SignAR'), 0, 2, 'signar')
    el = new_el(I, 'samlp:ArtifactResponse')
    set_attr(I, el, 'xmlns:saml', NS_SAML)
    set_attr(I, el, 'xmlns:samlp', NS_SAMLP)
    set_attr(I, el, 'ID', fld(I, SAML + 'ArtifactResponse', AR, 'ID'))
    bind_value(I, el, SAML + 'ArtifactResponse', AR)
    add_child(I, el, response_element(I, fld(I, T, ad, 'D')))
    if sign:
        kl = ctx.concretize(fld(I, T, ad, 'KeyInfo'), 0, 3, 'keyinfo')
        add_child(I, el, make_signature(I, el, (0, sign - 1), keyinfo_layout(sign - 1, kl)))
    env = new_el(I, 'soap:Envelope')
    set_attr(I, env, 'xmlns:soap', NS_SOAP)
    body = new_el(I, 'soap:Body')
    add_child(I, body, el)
    add_child(I, env, body)
    return tag_bytes(I, ('serialize', env), 'docbytes')


NS_XENC = 'http://www.w3.org/2001/04/xmlenc#'
XMLENC_DECRYPT = 'github.com/crewjam/saml/xmlenc.Decrypt'


def encrypted_assertion(I, plain_el, to):
    """<saml:EncryptedAssertion><xenc:EncryptedData/></saml:EncryptedAssertion> whose EncryptedData stands for
    `plain_el` encrypted to test key `to` (contract: xmlenc.Decrypt with that private key returns its bytes,
    with any other key an error; anyone can produce such an element from the public certificate)."""
    ctx = I.ctx
    enc = new_el(I, 'saml:EncryptedAssertion')
    set_attr(I, enc, 'xmlns:saml', NS_SAML)
    data = new_el(I, 'xenc:EncryptedData')
    set_attr(I, data, 'xmlns:xenc', NS_XENC)
    m = new_marker(I, 'e')
    ctx.ghost.setdefault('enc', {})[m] = (to, plain_el)
    set_marker(I, data, 'enc', m)
    add_child(I, enc, data)
    return enc


def xmlenc_decrypt(I, args, ins):
    from .cryptostubs import test_key
    ctx = I.ctx
    key, el = ctx.force(args[0]), ctx.force(args[1])
    m = get_marker(I, el, 'enc') if el is not None else None
    if m is None:
        return I.exec_function(I.prog.funcs[XMLENC_DECRYPT], args, ())
    to, plain = ctx.ghost['enc'][m]
    kp = ctx.force(key.val) if isinstance(key, Iface) else None
    ctx.event('xmlenc.Decrypt', to)
    if isinstance(kp, Ptr) and kp == test_key(I, *to)['priv']:
        return TupleV((tag_bytes(I, ('serialize', plain), 'plaintext'), None))
    return TupleV((NIL_SLICE, ctx.new_error('xmlenc', msg='crypto/rsa: decryption error')))


STUBS[XMLENC_DECRYPT] = xmlenc_decrypt


def response_element(I, dptr):
    ctx = I.ctx
    d = ctx.load(ctx.force(dptr))
    DT = SAML + 'verifDoc'
    rptr = ctx.force(fld(I, DT, d, 'R'))
    sign_resp = ctx.concretize(fld(I, DT, d, 'SignResponse'), 0, 2, 'signresp')
    R = ctx.load(rptr)
    resp = new_el(I, 'samlp:Response')
    set_attr(I, resp, 'xmlns:saml', NS_SAML)
    set_attr(I, resp, 'xmlns:samlp', NS_SAMLP)
    set_attr(I, resp, 'ID', fld(I, SAML + 'Response', R, 'ID'))
    bind_value(I, resp, SAML + 'Response', R)
    AT = SAML + 'verifDocAssertion'
    for da in I.slice_elems(fld(I, DT, d, 'Assertions')):
        aptr = ctx.force(fld(I, AT, da, 'A'))
        sign = ctx.concretize(fld(I, AT, da, 'Sign'), 0, 2, 'signa')
        A = ctx.load(aptr)
        ael = new_el(I, 'saml:Assertion')
        set_attr(I, ael, 'xmlns:saml', NS_SAML)
        set_attr(I, ael, 'ID', fld(I, SAML + 'Assertion', A, 'ID'))
        bind_value(I, ael, SAML + 'Assertion', A)
        if sign:
            kl = ctx.concretize(fld(I, AT, da, 'KeyInfo'), 0, 3, 'keyinfo')
            add_child(I, ael, make_signature(I, ael, (0, sign - 1), keyinfo_layout(sign - 1, kl)))
        enc = ctx.concretize(fld(I, AT, da, 'Encrypt'), 0, 2, 'encrypt')
        if enc:
            ael = encrypted_assertion(I, ael, (0, 1 + enc))
            rm = ctx.concretize(fld(I, AT, da, 'Retrieval'), 0, 3, 'retrieval')
            if rm:
                data = child_elements(I, ael)[0]
                ki = new_el(I, 'ds:KeyInfo')
                set_attr(I, ki, 'xmlns:ds', NS_DS)
                m = new_el(I, 'ds:RetrievalMethod')
                set_attr(I, m, 'Type', 'http://www.w3.org/2001/04/xmlenc#EncryptedKey')
                set_attr(I, m, 'URI', ['#k1', "#'", '#k[1'][rm - 1])
                add_child(I, ki, m)
                add_child(I, data, ki)
        add_child(I, resp, ael)
    if sign_resp:
        # the Response signature is made over the complete element (assertions included)
        kl = ctx.concretize(fld(I, DT, d, 'KeyInfo'), 0, 3, 'keyinfo')
        add_child(I, resp, make_signature(I, resp, (0, sign_resp - 1), keyinfo_layout(sign_resp - 1, kl)))
    return resp


@intrinsic('verifMaterialiseLogout')
def i_materialise_logout(I, args, ins):
    ctx = I.ctx
    lr = ctx.load(ctx.force(args[0]))
    sign = ctx.concretize(args[1], 0, 2, 'sign')
    rootless = args[2]
    if rootless is True:
        return tag_bytes(I, ('serialize', None), 'docbytes')
    el = new_el(I, 'samlp:LogoutResponse')
    set_attr(I, el, 'xmlns:saml', NS_SAML)
    set_attr(I, el, 'xmlns:samlp', NS_SAMLP)
    set_attr(I, el, 'ID', fld(I, SAML + 'LogoutResponse', lr, 'ID'))
    bind_value(I, el, SAML + 'LogoutResponse', lr)
    if sign:
        add_child(I, el, make_signature(I, el, (0, sign - 1)))
    return tag_bytes(I, ('serialize', el), 'docbytes')


@intrinsic('verifDeflate')
def i_deflate(I, args, ins):
    info = bytes_info(I, args[0])
    return tag_bytes(I, ('deflate', info), 'deflated')


@intrinsic('verifInflateSource')
def i_inflate_source(I, args, ins):
    """verifInflateSource(size): a reader over a deflate stream that inflates to `size` bytes."""
    ctx = I.ctx
    b = ctx.alloc(StructV([]), 'body')
    ctx.ghost.setdefault('readers', {})[b.cell] = ('inflate-source', args[0])
    return Iface('*verif.body', b)


@intrinsic('verifReadMany')
def i_read_many(I, args, ins):
    """verifReadMany(r, bufLen, reads): `reads` successive Read calls with a buffer of bufLen bytes, stopping at the
    first error; returns the bytes delivered in total."""
    ctx = I.ctx
    r, buflen, reads = ctx.force(args[0]), args[1], args[2]
    reads = ctx.concretize(reads, 0, 8, 'reads')
    total = 0
    for i in range(reads):
        base = ctx.alloc((), 'symlen')
        p = Slice(base, 0, buflen, buflen)
        res = I.invoke(r, 'Read', [p], ins)
        n, err = res[0], ctx.force(res[1])
        total = zint(total) + zint(n)
        if err is not None:
            break
    return z3.simplify(total) if is_sym(total) else total


@stub('compress/flate.NewReader')
def flate_newreader(I, args, ins):
    from .base import reader_content
    ctx = I.ctx
    kind, c = reader_content(I, args[0])
    p = ctx.alloc(StructV([]), 'flate.reader')
    src = None
    if kind == 'inflate-source':
        ctx.ghost.setdefault('flate', {})[p.cell] = ('inflate-source', c)
        return Iface('*verif.flateReader', p)
    if kind == 'bytes':
        src = bytes_info(I, c)
    elif kind == 'string':
        src = xmlstubs.string_info(I, c)
    ctx.ghost.setdefault('flate', {})[p.cell] = src
    return Iface('*verif.flateReader', p)


def _flate_read(I, recv, args, ins):
    """Read on an inflater: any 0 <= n <= len(p), any error (contract stub); an inflater over a
    verifInflateSource(size) delivers at most size bytes in total."""
    ctx = I.ctx
    n = ctx.fresh_int('flate.n')
    ctx.add_inv(z3.And(n >= 0, n <= zint(I.length(args[0]))))
    src = ctx.ghost.get('flate', {}).get(recv.cell) if isinstance(recv, Ptr) else None
    if src is not None and src[0] == 'inflate-source':
        done = ctx.ghost.setdefault('flate_delivered', {}).get(recv.cell, 0)
        ctx.add_inv(zint(done) + n <= zint(src[1]))
        ctx.ghost['flate_delivered'][recv.cell] = zint(done) + n
    if ctx.choose(2, 'flate-err') == 1:
        return TupleV((n, ctx.new_error('flate')))
    return TupleV((n, None))


INVOKE_STUBS[('*verif.flateReader', 'Read')] = _flate_read
INVOKE_STUBS[('*verif.flateReader', 'Close')] = lambda I, recv, args, ins: None
from ..core import OPAQUE_IMPLEMENTS
OPAQUE_IMPLEMENTS['*verif.flateReader'] = {'io.ReadCloser', 'io.Reader', 'io.Closer'}


def _readall_safer_flate(I, c, ins):
    """io.ReadAll(newSaferFlateReader(r)): the inflated bytes when r carries deflate(x), else failure."""
    ctx = I.ctx
    if not isinstance(c, Ptr):
        return None
    if c.cell in ctx.ghost.get('flate', {}):
        cell = c.cell                       # io.ReadAll(flate.NewReader(r)) without the bounding wrapper
    else:
        st = ctx.load(c)
        if not isinstance(st, StructV) or len(st) != 2:
            return None
        inner = ctx.force(st[0])
        if not (isinstance(inner, Iface) and inner.dyn == '*verif.flateReader'):
            return None
        cell = inner.val.cell
    src = ctx.ghost.get('flate', {}).get(cell)
    if src is not None and src[0] == 'deflate' and src[1] is not None:
        # inflating what the harness deflated gives the (small) document back
        return TupleV((tag_bytes(I, src[1], 'inflated'), None))
    if ctx.choose(2, 'inflate-err') == 1:
        return TupleV((NIL_SLICE, ctx.new_error('flate', msg='flate: corrupt input or limit exceeded')))
    return TupleV((ctx.fresh('[]byte', 'inflated'), None))


from . import base as _base
_base.READALL_HOOKS.append(_readall_safer_flate)


# ------------------------------------------------------------------ etree document serialise / parse

@stub('(*' + ET + 'Document).WriteToBytes')
def doc_write_to_bytes(I, args, ins):
    ctx = I.ctx
    root = ctx.force(I.call_function('(*' + ET + 'Document).Root', [args[0]]))
    if root is None:
        return TupleV((tag_bytes(I, ('serialize', None), 'docbytes'), None))
    # serialisation fixes the content: snapshot the tree
    snap = ctx.force(I.call_function('(' + EL + ').Copy', [root]))
    return TupleV((tag_bytes(I, ('serialize', snap), 'docbytes'), None))


@stub('(*' + ET + 'Document).WriteToString')
def doc_write_to_string(I, args, ins):
    ctx = I.ctx
    root = ctx.force(I.call_function('(*' + ET + 'Document).Root', [args[0]]))
    snap = ctx.force(I.call_function('(' + EL + ').Copy', [root])) if root is not None else None
    s = ctx.fresh_str('docstring')
    ctx.ghost.setdefault('string_tag', {})[str(s)] = ('serialize', snap)
    return TupleV((s, None))


@stub('(*' + ET + 'Document).ReadFromBytes')
def doc_read_from_bytes(I, args, ins):
    ctx = I.ctx
    doc = ctx.force(args[0])
    buf = ctx.force(args[1])
    info = bytes_info(I, buf)
    key = buf.base.cell if isinstance(buf, Slice) and buf.base is not None else None
    ctx.event('etree.ReadFromBytes', key, key in ctx.ghost.get('validated', set()))
    if key not in ctx.ghost.get('validated', set()):
        ctx.ghost.setdefault('monitor', []).append(('roundtrip-before-parse', ctx.cur_pos))
    if info is not None and info[0] == 'serialize':
        root = info[1]
        if root is None:
            return None     # a document without a root element (comment-only input)
        cp = ctx.force(I.call_function('(' + EL + ').Copy', [root]))
        I.call_function('(*' + ET + 'Document).SetRoot', [doc, cp])
        return None
    h = READ_HOOK[0]
    if h is not None:
        return h(I, doc, buf, ins)
    if isinstance(buf, Slice) and isinstance(buf.len, int):
        # concrete text without any markup: etree reads character data only and leaves the document without a root
        el = I.slice_elems(buf) if buf.len else []
        if all(isinstance(e, int) and e not in (0x3c, 0x26) for e in el):
            return None
    if ctx.choose(2, 'parse-err') == 1:
        return ctx.new_error('etree', msg='etree: parse error')
    raise Inconclusive('etree parse of bytes that are not a modelled document')


READ_HOOK = [None]


def _unmarshal_serialized(I, info, t, ptr):
    ctx = I.ctx
    root = info[1]
    if root is None:
        return ctx.new_error('xml', msg='EOF')
    m = get_marker(I, root, 'bind')
    if m is None or not isinstance(m, str):
        return NotImplemented
    bt, value = ctx.ghost.get('bind', {}).get(m, (None, None))
    if bt != t:
        # an element of one type decoded as another: encoding/xml rejects a mismatching root name
        return ctx.new_error('xml', msg='expected element type <%s>' % t.rsplit('.', 1)[-1])
    return decode_into(I, t, ptr, value)


xmlstubs.UNMARSHAL_ELEMENT_HOOK = _unmarshal_serialized


def _patch_hook():
    # xml_unmarshal looks the hook up at call time through the module attribute
    pass


# ------------------------------------------------------------------ goxmldsig contracts

def _key_of_signer(I, signer):
    ctx = I.ctx
    signer = ctx.force(signer)
    if isinstance(signer, Iface):
        p = ctx.force(signer.val)
        if isinstance(p, Ptr):
            return ctx.ghost.get('keycells', {}).get(p.cell)
    return None


def _signing_key(I, sctx_ptr):
    """The (kind,id) of the key a dsig.SigningContext signs with."""
    ctx = I.ctx
    T = DSIG + 'SigningContext'
    sc = ctx.load(ctx.force(sctx_ptr))
    ks = ctx.force(fld(I, T, sc, 'KeyStore'))
    if ks is not None:
        if isinstance(ks, Iface) and ks.dyn == DSIG + 'TLSCertKeyStore':
            pk = fld(I, 'crypto/tls.Certificate', ks.val, 'PrivateKey')
            return _key_of_signer(I, pk)
        return None
    return _key_of_signer(I, fld(I, T, sc, 'signer'))


@stub('(*' + DSIG + 'SigningContext).SignEnveloped')
def dsig_sign_enveloped(I, args, ins):
    ctx = I.ctx
    sctx, el = args
    el = ctx.force(el)
    if el is None:
        raise GoPanic('nil-deref', ctx.cur_pos)
    key = _signing_key(I, sctx)
    if not ctx.opts.get('no_sign_err') and ctx.choose(2, 'sign-err') == 1:
        return TupleV((None, ctx.new_error('dsig', msg='dsig: signing failed')))
    if key is None:
        raise Inconclusive('SignEnveloped with an unmodelled key')
    cp = ctx.force(I.call_function('(' + EL + ').Copy', [el]))
    sig = make_signature(I, cp, key)
    method = fld(I, DSIG + 'SigningContext', ctx.load(ctx.force(sctx)), 'Hash')
    ctx.event('dsig.SignEnveloped', key)
    ctx.ghost.setdefault('signatures', []).append({'key': key, 'over': el, 'copy': cp, 'sig': sig, 'ctx': ctx.force(sctx), 'hash': method})
    add_child(I, cp, sig)
    return TupleV((cp, None))


@stub('(*' + DSIG + 'SigningContext).SignString')
def dsig_sign_string(I, args, ins):
    ctx = I.ctx
    sctx, content = args
    key = _signing_key(I, sctx)
    if ctx.choose(2, 'sign-err') == 1:
        return TupleV((NIL_SLICE, ctx.new_error('dsig', msg='dsig: signing failed')))
    out = tag_bytes(I, ('signature-of-string', key, content), 'sigbytes')
    ctx.ghost.setdefault('signed_strings', []).append({'key': key, 'content': content, 'ctx': ctx.force(sctx)})
    return TupleV((out, None))


def _roots_of(I, vctx_ptr):
    """(kind,id) keys of the certificates a ValidationContext trusts; None entries for unknown certificates."""
    ctx = I.ctx
    T = DSIG + 'ValidationContext'
    vc = ctx.load(ctx.force(vctx_ptr))
    store = ctx.force(fld(I, T, vc, 'CertificateStore'))
    if not isinstance(store, Iface):
        return []
    if store.dyn == '*' + DSIG + 'MemoryX509CertificateStore':
        st = ctx.load(ctx.force(store.val))
        roots = I.slice_elems(st[0])
    else:
        r = I.invoke(store, 'Certificates', [], None)
        roots = I.slice_elems(r[0])
    out = []
    for c in roots:
        c = ctx.force(c)
        out.append(ctx.ghost.get('certcells', {}).get(c.cell) if isinstance(c, Ptr) else None)
    return out


@stub('(*' + DSIG + 'ValidationContext).Validate')
def dsig_validate(I, args, ins):
    """nil only if el has a direct-child Signature made over this very element by a key whose
    certificate is one of the context's roots (the central assumption of C01/C18)."""
    ctx = I.ctx
    vctx, el = args
    el = ctx.force(el)
    if el is None:
        raise GoPanic('nil-deref', ctx.cur_pos)
    roots = _roots_of(I, vctx)
    nsig, cond = signature_verdict(I, el, [r for r in roots if r is not None])
    ok = nsig == 1 and ctx.branch(cond)
    ctx.event('dsig.Validate', ok, tuple(roots))
    ctx.ghost.setdefault('validations', []).append({'el': el, 'ok': ok, 'roots': roots})
    if ok:
        return TupleV((el, None))
    return TupleV((None, ctx.new_error('dsig', msg='dsig: signature does not verify')))


@intrinsic('verifSignedBy')
def i_signed_by(I, args, ins):
    ctx = I.ctx
    el = ctx.force(args[0])
    if el is None:
        return False
    kind = ctx.concretize(args[1], 0, 2, 'kind')
    id = ctx.concretize(args[2], 0, 3, 'id')
    nsig, cond = signature_verdict(I, el, [(kind, id)])
    if nsig != 1:
        return False
    return cond


@intrinsic('verifVerifyString')
def i_verify_string(I, args, ins):
    ctx = I.ctx
    content, sig, method, kind, id = args
    info = bytes_info(I, sig)
    if info is None or info[0] != 'signature-of-string':
        return False
    kind = ctx.concretize(kind, 0, 2, 'kind')
    id = ctx.concretize(id, 0, 3, 'id')
    if info[1] != (kind, id):
        return False
    from .httpstubs import rope_eq
    return rope_eq(I, info[2], content)


@intrinsic('verifSignedQueryOctets')
def i_signed_query_octets(I, args, ins):
    """verifSignedQueryOctets(rawQuery, param): the text from 'param=' up to the last '&Signature=' as it stands in the query."""
    from .httpstubs import _atoms, _atoms_to_raw
    raw, param = args
    if not isinstance(param, str):
        raise Inconclusive('verifSignedQueryOctets parameter name')
    if isinstance(raw, str):
        at = [('c', ch) for ch in raw]
    else:
        at = _atoms(raw)

    def runs(text):
        n = len(text)
        return [i for i in range(len(at) - n + 1) if all(at[i + j] == ('c', text[j]) for j in range(n))]
    starts = [i for i in runs(param + '=') if i == 0 or at[i - 1] == ('c', '&')]
    ends = runs('&Signature=')
    if not starts or not ends or ends[-1] < starts[0]:
        return ''
    return _atoms_to_raw(at[starts[0]:ends[-1]])


@intrinsic('verifParseAssertionBytes')
def i_parse_bytes(I, args, ins):
    ctx = I.ctx
    info = bytes_info(I, args[0])
    if info is not None and info[0] == 'serialize' and info[1] is not None:
        return ctx.force(I.call_function('(' + EL + ').Copy', [info[1]]))
    return None


@intrinsic('verifSignedResponse')
def i_signed_response(I, args, ins):
    ctx = I.ctx
    sp, answers, name_id, now = args
    s = ctx.fresh_str('samlresponse')
    ctx.ghost.setdefault('responses', {})[str(s)] = {'answers': answers, 'nameid': name_id, 'now': now, 'sp': ctx.force(sp)}
    ctx.ghost.setdefault('string_tag', {})[str(s)] = ('response',)
    return s


def summary_parse_response(I, args, ins):
    """Summary of (*saml.ServiceProvider).ParseResponse on a valid, trusted-signed, fresh response that answers
    request ID x: an assertion iff IdP-initiated login is allowed or x is one of the IDs handed in (the C04 clauses,
    discharged on the real function by Harness_C04_flow / Harness_C04_assertion); anything else is an error."""
    from ..core import SUMMARIES
    ctx = I.ctx
    sp, req, ids = args
    r = ctx.load(ctx.force(req))
    pf = ctx.force(r[I.prog.field_index('net/http.Request', 'PostForm')])
    val = ''
    if pf is not None:
        for k, vs in ctx.store[pf.cell]:
            if ctx.branch(I.eq(k, 'SAMLResponse')):
                el = I.slice_elems(vs)
                val = el[0] if el else ''
                break
    rec = ctx.ghost.get('responses', {}).get(str(val)) if is_sym(val) else None
    T = SAML + 'InvalidResponseError'
    err = Iface('*' + T, ctx.alloc(I.prog.zero(T).with_field(I.prog.field_index(T, 'PrivateErr'), ctx.new_error('summary', msg='response rejected')), 'ire'))
    if rec is None:
        return TupleV((None, err))
    spv = ctx.load(ctx.force(sp))
    allow = spv[I.prog.field_index(SAML + 'ServiceProvider', 'AllowIDPInitiated')]
    ok = allow
    for x in I.slice_elems(ids):
        ok = b_or(ok, I.eq(x, rec['answers']))
    ctx.ghost.setdefault('parse_response_ids', []).append(list(I.slice_elems(ids)))
    if not ctx.branch(ok):
        return TupleV((None, err))
    A = SAML + 'Assertion'
    a = I.prog.zero(A)
    nid = ctx.alloc(I.prog.zero(SAML + 'NameID').with_field(I.prog.field_index(SAML + 'NameID', 'Value'), rec['nameid']), 'nameid')
    subj = ctx.alloc(I.prog.zero(SAML + 'Subject').with_field(I.prog.field_index(SAML + 'Subject', 'NameID'), nid), 'subject')
    a = a.with_field(I.prog.field_index(A, 'Subject'), subj)
    return TupleV((ctx.alloc(a, 'assertion'), None))


from ..core import SUMMARIES as _SM
_SM['parse-response-answers'] = summary_parse_response


def install(prog):
    pass


# ------------------------------------------------------------------ writer pipelines: doc.WriteTo(flate(base64(builder)))

from ..core import OPAQUE_IMPLEMENTS as _OI
_OI['*verif.b64writer'] = {'io.WriteCloser', 'io.Writer', 'io.Closer'}
_OI['*verif.flatewriter'] = {'io.WriteCloser', 'io.Writer', 'io.Closer'}


def _sink_write(I, w, info):
    """Deliver content `info` (a bytes tag) to writer w."""
    from .base import _buf
    ctx = I.ctx
    w = ctx.force(w)
    if isinstance(w, Iface) and w.dyn in ('*verif.b64writer', '*verif.flatewriter'):
        ctx.ghost['writers'][w.val.cell]['pending'].append(info)
        return
    if isinstance(w, Iface) and w.dyn in ('*strings.Builder', '*bytes.Buffer'):
        if info[0] == 'b64of':
            s = ctx.fresh_str('b64')
            ctx.ghost.setdefault('string_tag', {})[str(s)] = info
            _buf(I, w.val).append(s)
        else:
            sl = tag_bytes(I, info, 'written')
            _buf(I, w.val).append(('bytes', I.slice_elems(sl)))
        return
    if isinstance(w, Ptr):    # *flate.Writer receives through its underlying writer
        return
    raise Inconclusive('writer pipeline into %r' % (w,))


@stub('encoding/base64.NewEncoder')
def b64_new_encoder(I, args, ins):
    ctx = I.ctx
    p = ctx.alloc(StructV([]), 'b64writer')
    ctx.ghost.setdefault('writers', {})[p.cell] = {'kind': 'b64', 'under': args[1], 'pending': []}
    return Iface('*verif.b64writer', p)


@stub('compress/flate.NewWriter')
def flate_new_writer(I, args, ins):
    ctx = I.ctx
    p = ctx.alloc(StructV([]), 'flatewriter')
    ctx.ghost.setdefault('writers', {})[p.cell] = {'kind': 'flate', 'under': args[0], 'pending': []}
    return TupleV((p, None))


def _writer_write(I, recv, args, ins):
    ctx = I.ctx
    w = ctx.ghost['writers'][recv.cell]
    info = bytes_info(I, args[0])
    if info is None:
        info = ('raw', tuple(str(e) for e in I.slice_elems(args[0])))
    w['pending'].append(info)
    return TupleV((I.length(args[0]), None))


def _writer_close(I, recv, args, ins):
    ctx = I.ctx
    w = ctx.ghost['writers'][recv.cell]
    if len(w['pending']) != 1:
        if not w['pending']:
            return None
        raise Inconclusive('writer pipeline with %d writes' % len(w['pending']))
    info = w['pending'][0]
    w['pending'] = []
    out = ('deflate', info) if w['kind'] == 'flate' else ('b64of', info)
    _sink_write(I, w['under'], out)
    return None


INVOKE_STUBS[('*verif.b64writer', 'Write')] = _writer_write
INVOKE_STUBS[('*verif.b64writer', 'Close')] = _writer_close
STUBS['(*compress/flate.Writer).Write'] = lambda I, args, ins: _writer_write(I, I.ctx.force(args[0]), args[1:], ins)
STUBS['(*compress/flate.Writer).Close'] = lambda I, args, ins: _writer_close(I, I.ctx.force(args[0]), args[1:], ins)
STUBS['(*compress/flate.Writer).Flush'] = lambda I, args, ins: None


@stub('(*' + ET + 'Document).WriteTo')
def doc_write_to(I, args, ins):
    ctx = I.ctx
    root = ctx.force(I.call_function('(*' + ET + 'Document).Root', [args[0]]))
    snap = ctx.force(I.call_function('(' + EL + ').Copy', [root])) if root is not None else None
    w = ctx.force(args[1])
    info = ('serialize', snap)
    if isinstance(w, Ptr) and ctx.ghost.get('writers', {}).get(w.cell) is not None:
        ctx.ghost['writers'][w.cell]['pending'].append(info)
    elif isinstance(w, Iface) and isinstance(w.val, Ptr) and ctx.ghost.get('writers', {}).get(w.val.cell) is not None:
        ctx.ghost['writers'][w.val.cell]['pending'].append(info)
    else:
        _sink_write(I, w, info)
    return TupleV((1, None))
