"""gosmt core: program loading, path state, SSA interpreter.

Path-based symbolic execution by re-execution: a path is identified by its
decision list; every symbolic branch / lazy-initialisation choice / stub choice
consumes one decision.  New alternatives are returned to the scheduler.
"""
import json, sys, time, os
import z3
from .values import *

sys.setrecursionlimit(20000)

INT_KINDS = {
    'int': (64, True), 'int8': (8, True), 'int16': (16, True), 'int32': (32, True), 'int64': (64, True),
    'uint': (64, False), 'uint8': (8, False), 'uint16': (16, False), 'uint32': (32, False), 'uint64': (64, False),
    'uintptr': (64, False), 'byte': (8, False), 'rune': (32, True),
    'untyped int': (64, True), 'untyped rune': (32, True),
}
TIME_STRUCT = 'struct{wall uint64; ext int64; loc *time.Location}'


class GoPanic(Exception):
    def __init__(self, reason, pos='', value=None):
        Exception.__init__(self, reason)
        self.reason = reason
        self.pos = pos
        self.value = value
        self.stack = []


class PathEnd(Exception):
    """Path killed (assume false / infeasible)."""


class Inconclusive(Exception):
    """Engine limitation reached on this path."""


class Unwind(Exception):
    pass


# ---------------------------------------------------------------- program

class Program:
    def __init__(self, path):
        t0 = time.time()
        with open(path) as f:
            d = json.load(f)
        self.funcs = d['funcs']
        self.types = d['types']
        self.globals = d['globals']
        self.methodsets = d['methodsets']
        self.implements = {k: set(v or ()) for k, v in d['implements'].items()}
        self.inits = d['inits']
        self.harnesses = d['harnesses']
        self._zero = {}
        self._kind = {}
        self.compiled = {}
        for fj in self.funcs.values():
            for k in ('params', 'freevars', 'results'):
                if fj.get(k) is None:
                    fj[k] = []
            for b in fj.get('blocks') or []:
                for k in ('succs', 'preds', 'instrs'):
                    if b.get(k) is None:
                        b[k] = []
                for ins in b['instrs']:
                    c = ins.get('call')
                    if c is not None and c.get('args') is None:
                        c['args'] = []
                    for k in ('results', 'binds', 'edges'):
                        if k in ins and ins[k] is None:
                            ins[k] = []
                    if ins['op'] == 'Return' and 'results' not in ins:
                        ins['results'] = []
                    if ins['op'] == 'MakeClosure' and 'binds' not in ins:
                        ins['binds'] = []
        for tj in self.types.values():
            for k in ('fields', 'methods', 'params', 'results', 'elems'):
                if tj.get(k) is None and k in ('fields', 'elems', 'results', 'params', 'methods'):
                    tj[k] = []
        self.load_s = time.time() - t0

    # -- types
    def under(self, t):
        tj = self.types.get(t)
        while tj is not None and tj['kind'] == 'named':
            t = tj['under']
            tj = self.types.get(t)
        return t, tj

    def kind(self, t):
        """Returns one of: int bool string float ptr slice array struct map iface func tuple time chan unsafe"""
        k = self._kind.get(t)
        if k is not None:
            return k
        k = self._kind_(t)
        self._kind[t] = k
        return k

    def _kind_(self, t):
        if t == 'time.Time':
            return 'time'
        ut, tj = self.under(t)
        if ut == TIME_STRUCT:
            return 'time'
        if tj is None:
            raise Inconclusive('unknown type %s' % t)
        k = tj['kind']
        if k == 'basic':
            b = tj['basic']
            if b in INT_KINDS:
                return 'int'
            if b in ('bool', 'untyped bool'):
                return 'bool'
            if b in ('string', 'untyped string'):
                return 'string'
            if b in ('float64', 'float32', 'untyped float'):
                return 'float'
            if b == 'untyped nil':
                return 'nil'
            if b == 'Pointer' or b == 'unsafe.Pointer':
                return 'unsafe'
            if b in ('complex128', 'complex64'):
                return 'complex'
            raise Inconclusive('basic kind %s' % b)
        return k

    def intinfo(self, t):
        ut, tj = self.under(t)
        return INT_KINDS[tj['basic']]

    def elem(self, t):
        ut, tj = self.under(t)
        return tj['elem']

    def fields(self, t):
        ut, tj = self.under(t)
        return tj['fields']

    def field_index(self, t, name):
        for i, f in enumerate(self.fields(t)):
            if f['n'] == name:
                return i
        raise KeyError(name)

    def zero(self, t):
        z = self._zero.get(t)
        if z is not None or t in self._zero:
            return z
        z = self._zero_(t)
        self._zero[t] = z
        return z

    def _zero_(self, t):
        k = self.kind(t)
        if k == 'int':
            return 0
        if k == 'bool':
            return False
        if k == 'string':
            return ''
        if k == 'float':
            return 0.0
        if k == 'time':
            return TimeV(0)
        if k in ('ptr', 'map', 'iface', 'func', 'chan', 'nil', 'unsafe'):
            return None
        if k == 'slice':
            return NIL_SLICE
        ut, tj = self.under(t)
        if k == 'struct':
            return StructV([self.zero(f['t']) for f in tj['fields']])
        if k == 'array':
            return tuple([self.zero(tj['elem'])] * tj.get('len', 0))
        if k == 'tuple':
            return TupleV([self.zero(e) for e in tj['elems']])
        raise Inconclusive('zero of %s (%s)' % (t, k))

    def method(self, dyn, mid):
        ms = self.methodsets.get(dyn)
        if ms is None:
            return None
        return ms.get(mid)


def _str_from_bytes(bl):
    return ''.join(map(chr, bl))


def go_bytes_of_rune(r):
    try:
        b = chr(r).encode('utf-8')
    except (ValueError, UnicodeEncodeError):
        b = b'\xef\xbf\xbd'
    return b.decode('latin-1')


# ---------------------------------------------------------------- z3 helpers

def zint(v):
    return v if is_sym(v) else z3.IntVal(v)


def zstr(v):
    return v if is_sym(v) else z3.StringVal(v)


def zbool(v):
    return v if is_sym(v) else z3.BoolVal(v)


def b_and(*xs):
    out = []
    for x in xs:
        if x is False:
            return False
        if x is True:
            continue
        out.append(x)
    if not out:
        return True
    if len(out) == 1:
        return out[0]
    return z3.And(*out)


def b_or(*xs):
    out = []
    for x in xs:
        if x is True:
            return True
        if x is False:
            continue
        out.append(x)
    if not out:
        return False
    if len(out) == 1:
        return out[0]
    return z3.Or(*out)


def b_not(x):
    if isinstance(x, bool):
        return not x
    return z3.Not(x)


def b_ite(c, a, b):
    if isinstance(c, bool):
        return a if c else b
    if isinstance(a, bool) or isinstance(b, bool) or z3.is_bool(a):
        return z3.If(c, zbool(a), zbool(b))
    if isinstance(a, str) or isinstance(b, str) or (is_sym(a) and z3.is_string(a)):
        return z3.If(c, zstr(a), zstr(b))
    return z3.If(c, zint(a), zint(b))


MODS = {}          # term id -> [(constant, x mod constant)] built so far on this path
MODS_KEEP = []
TOKEN_HOOKS = {}   # numeral-token helpers registered by stubs/ropestubs.py
BOUNDS = {}     # z3 term id -> (lo, hi): interval facts established when the term was built (reset per path)


def bounds_of(v):
    if isinstance(v, bool):
        return None
    if isinstance(v, int):
        return (v, v)
    if is_sym(v):
        b = BOUNDS.get(v.get_id())
        return b[:2] if b is not None else None
    return None


def set_bounds(v, lo, hi):
    if is_sym(v):
        BOUNDS[v.get_id()] = (lo, hi, v)      # the term is kept alive so that its id is never reused
    return v


def type_range(bits, signed):
    return (-(1 << (bits - 1)), (1 << (bits - 1)) - 1) if signed else (0, (1 << bits) - 1)


def wrap_b(v, bits, signed, b):
    """wrap with interval knowledge: no wrap term when the mathematical result provably fits the type."""
    if not is_sym(v):
        return wrap(v, bits, signed)
    lo, hi = type_range(bits, signed)
    if b is not None and b[0] >= lo and b[1] <= hi:
        return set_bounds(v, b[0], b[1])
    return set_bounds(wrap(v, bits, signed), lo, hi)


def wrap(v, bits, signed):
    if not is_sym(v):
        m = 1 << bits
        v &= m - 1
        if signed and v >= (m >> 1):
            v -= m
        return v
    m = 1 << bits
    if signed:
        h = m >> 1
        return z3.If(z3.And(v >= -h, v < h), v, ((v + h) % m) - h)
    return z3.If(z3.And(v >= 0, v < m), v, v % m)


def tdiv(x, y):
    """Go truncating division on mathematical ints (y != 0)."""
    if not is_sym(x) and not is_sym(y):
        q = abs(x) // abs(y)
        return q if (x >= 0) == (y >= 0) else -q
    if not is_sym(y):
        if y > 0:
            return z3.If(zint(x) >= 0, zint(x) / y, -((-zint(x)) / y))
        return z3.If(zint(x) >= 0, -(zint(x) / (-y)), (-zint(x)) / (-y))
    x = zint(x)
    return z3.If(x >= 0, z3.If(y > 0, x / y, -(x / (-y))), z3.If(y > 0, -((-x) / y), (-x) / (-y)))


# ---------------------------------------------------------------- path context

class Stats:
    def __init__(self):
        self.queries = 0
        self.solver_s = 0.0
        self.instrs = 0
        self.unknown = 0


class Ctx:
    def __init__(self, prog, prefix=(), opts=None, base_store=None):
        self.prog = prog
        self.opts = opts or {}
        BOUNDS.clear()
        MODS.clear()
        del MODS_KEEP[:]
        self.prefix = list(prefix)
        self.dpos = 0
        self.decisions = []
        self.alts = []
        self.solver = z3.Solver()
        self.solver.set('timeout', int(self.opts.get('timeout_ms', 60000)))
        seed = int(self.opts.get('seed', 0))
        if seed:
            self.solver.set('random_seed', seed)
        self.pc = []
        self.model = None
        self.store = dict(base_store) if base_store else {}
        self.ncell = 0
        self.lazy = {}
        self.nlazy = 0
        self.names = {}
        self.nondets = []          # (name, kind, term)
        self.choice_w = {}         # structural choices by tag (for native replay)
        self.ghost = {}            # stub ghost state
        self.events = []           # monitor/event log
        self.stats = Stats()
        self.assumes = []
        self.reached = []
        self.obligations = []      # dicts: label, verdict, model, pos
        self.stubs_hit = {}
        self.opaque_calls = {}
        self.funcs_run = {}
        self.depth = 0
        self.K = int(self.opts.get('K', 2))
        self.instr_budget = int(self.opts.get('instr_budget', 3000000))
        self.loop_limit = int(self.opts.get('loop_limit', 400))
        self.callstack = []
        self.trace_choices = []
        self.panic_is_violation = self.opts.get('panic_is_violation', False)
        self.cur_pos = ''

    # ---- naming / fresh symbols
    def uname(self, tag):
        n = self.names.get(tag, 0)
        self.names[tag] = n + 1
        return tag if n == 0 else '%s#%d' % (tag, n)

    def fresh_int(self, tag, t='int', record=False):
        bits, signed = self.prog.intinfo(t) if t in self.prog.types else INT_KINDS.get(t, (64, True))
        name = self.uname(tag)
        v = z3.Int(name)
        if signed:
            self.add_inv(z3.And(v >= -(1 << (bits - 1)), v < (1 << (bits - 1))))
        else:
            self.add_inv(z3.And(v >= 0, v < (1 << bits)))
        set_bounds(v, *type_range(bits, signed))
        if record:
            self.nondets.append((name, 'int', v))
        return v

    def fresh_bool(self, tag, record=False):
        name = self.uname(tag)
        v = z3.Bool(name)
        if record:
            self.nondets.append((name, 'bool', v))
        return v

    def fresh_str(self, tag, record=False):
        name = self.uname(tag)
        v = z3.String(name)
        if record:
            self.nondets.append((name, 'string', v))
        return v

    def new_lazy(self, t, tag, opts=None):
        self.nlazy += 1
        return Lazy(self.nlazy, t, self.uname(tag), opts)

    def fresh(self, t, tag, opts=None):
        """Arbitrary value of Go type t (havoc)."""
        p = self.prog
        k = p.kind(t)
        hook = FRESH_HOOKS.get(t)
        if hook is not None:
            return hook(self, t, tag, opts)
        if k == 'int':
            return self.fresh_int(tag, t, record=True)
        if k == 'bool':
            return self.fresh_bool(tag, record=True)
        if k == 'string':
            return self.fresh_str(tag, record=True)
        if k == 'time':
            name = self.uname(tag)
            v = z3.Int(name)
            self.add_inv(v >= 0)
            res = (opts or {}).get('time_res', self.opts.get('time_res', 1))
            if res != 1:
                q = z3.Int(name + '/res')
                self.add_inv(v == q * res)
            self.nondets.append((name, 'time', v))
            return TimeV(v)
        if k == 'struct':
            return StructV([self.fresh(f['t'], tag + '.' + f['n'], opts) for f in p.fields(t)])
        if k == 'array':
            ut, tj = p.under(t)
            return tuple(self.fresh(tj['elem'], '%s[%d]' % (tag, i), opts) for i in range(tj.get('len', 0)))
        if k in ('ptr', 'slice', 'iface', 'func', 'map'):
            return self.new_lazy(t, tag, opts)
        if k == 'float':
            name = self.uname(tag)
            return z3.FP(name, z3.Float64())
        raise Inconclusive('fresh of %s' % t)

    # ---- memory
    def new_cell(self, value, tag=''):
        self.ncell += 1
        cid = self.ncell
        self.store[cid] = value
        return cid

    def alloc(self, value, tag=''):
        return Ptr(self.new_cell(value, tag))

    def load(self, ptr):
        if ptr is None:
            raise GoPanic('nil-deref', self.cur_pos)
        v = self.store[ptr.cell]
        for s in ptr.path:
            v = v[s]
        return v

    def store_(self, ptr, val):
        if ptr is None:
            raise GoPanic('nil-deref', self.cur_pos)
        if not ptr.path:
            self.store[ptr.cell] = val
            return
        self.store[ptr.cell] = _set_path(self.store[ptr.cell], ptr.path, 0, val)

    # ---- solver
    def add(self, c):
        if c is True:
            return
        if c is False:
            raise PathEnd()
        self.solver.add(c)
        self.pc.append(c)

    def add_inv(self, c):
        # type invariants: cannot make the path infeasible
        self.solver.add(c)
        self.pc.append(c)
        self.model = None

    def check_sat(self, *extra):
        """Returns ('sat', model) / ('unsat', None) / ('unknown', None)."""
        t0 = time.time()
        r = self.solver.check(*extra)
        dt = time.time() - t0
        self.stats.queries += 1
        self.stats.solver_s += dt
        if r == z3.sat:
            return 'sat', self.solver.model()
        if r == z3.unsat:
            return 'unsat', None
        self.stats.unknown += 1
        return 'unknown', None

    def _model_val(self, cond):
        m = self.model
        if m is None:
            return None
        try:
            v = m.eval(cond, model_completion=True)
        except z3.Z3Exception:
            return None
        if z3.is_true(v):
            return True
        if z3.is_false(v):
            return False
        return None

    def branch(self, cond, label=''):
        if isinstance(cond, bool):
            return cond
        cond = z3.simplify(cond)
        if z3.is_true(cond):
            return True
        if z3.is_false(cond):
            return False
        if self.dpos < len(self.prefix):
            d = self.prefix[self.dpos]
            self.dpos += 1
            self.decisions.append(d)
            self.add(cond if d else z3.Not(cond))
            self.model = None
            return bool(d)
        known = self._model_val(cond)
        mt = mf = None
        if known is True:
            t, mt = True, self.model
        else:
            r, mt = self.check_sat(cond)
            t = r != 'unsat'
        ncond = z3.Not(cond)
        if known is False:
            f, mf = True, self.model
        else:
            r, mf = self.check_sat(ncond)
            f = r != 'unsat'
        if t and f:
            self.alts.append(self.decisions + [0])
            self.trace_choices.append(('fork@' + self.cur_pos, 1))
            d = 1
        elif t:
            d = 1
        elif f:
            d = 0
        else:
            raise PathEnd()
        self.decisions.append(d)
        self.dpos += 1
        self.prefix.append(d)
        self.add(cond if d else ncond)
        self.model = mt if d else mf
        return bool(d)

    def choose(self, n, label=''):
        """Unconstrained structural choice among n alternatives."""
        if n <= 1:
            return 0
        if self.dpos < len(self.prefix):
            d = self.prefix[self.dpos]
            self.dpos += 1
            self.decisions.append(d)
            self.trace_choices.append((label, d))
            return d
        for i in range(n - 1, 0, -1):
            self.alts.append(self.decisions + [i])
        self.decisions.append(0)
        self.prefix.append(0)
        self.dpos += 1
        self.trace_choices.append((label, 0))
        return 0

    def concretize(self, v, lo, hi, label=''):
        """Case-split a symbolic int over [lo,hi]; returns a python int."""
        if not is_sym(v):
            return v
        v = z3.simplify(v)
        if z3.is_int_value(v):
            return v.as_long()
        for c in range(lo, hi + 1):
            if self.branch(v == c, label):
                return c
        raise PathEnd()

    def feasible(self):
        r, m = self.check_sat()
        if r == 'sat':
            self.model = m
        return r != 'unsat'

    def assume(self, c, why=''):
        if isinstance(c, bool):
            if not c:
                raise PathEnd()
            return
        self.add(c)
        self.model = None
        if not self.feasible():
            raise PathEnd()

    # ---- lazies
    def force(self, v):
        while isinstance(v, Lazy):
            r = self.lazy.get(v.id)
            if r is None:
                r = (self._resolve(v),)
                self.lazy[v.id] = r
            v = r[0]
        return v

    def _resolve(self, lz):
        p = self.prog
        t = lz.typ
        hook = LAZY_HOOKS.get(t)
        if hook is not None:
            return hook(self, lz)
        k = p.kind(t)
        o = lz.opts
        if k == 'ptr':
            nonnil = o.get('nonnil')
            if not nonnil and self.choose(2, 'nil?' + lz.tag) == 1:
                self.choice_w['nil?' + lz.tag] = 1
                return None
            self.choice_w['nil?' + lz.tag] = 0
            et = p.elem(t)
            return self.alloc(self.fresh(et, lz.tag + '*', _sub_opts(o)), lz.tag)
        if k == 'slice':
            lens = o.get('lens')
            if lens is None:
                for pat, ls in self.opts.get('lens_by_tag', ()):
                    if pat in lz.tag:
                        lens = list(ls)
                        break
            if lens is None:
                lens = list(range(0, self.K + 1))
                # explore the single-element shape first
                if len(lens) > 1:
                    lens = [1, 0] + lens[2:]
            n = lens[self.choose(len(lens), 'len?' + lz.tag)]
            self.choice_w['len?' + lz.tag] = n
            et = p.elem(t)
            if n == 0:
                if o.get('nonnil') or self.choose(2, 'nilslice?' + lz.tag) == 0:
                    self.choice_w['nilslice?' + lz.tag] = 0
                    return Slice(self.alloc((), lz.tag), 0, 0, 0)
                self.choice_w['nilslice?' + lz.tag] = 1
                return NIL_SLICE
            arr = tuple(self.fresh(et, '%s[%d]' % (lz.tag, i), _sub_opts(o)) for i in range(n))
            return Slice(self.alloc(arr, lz.tag), 0, n, n)
        if k == 'func':
            if self.choose(2, 'nilfunc?' + lz.tag) == 0:
                self.choice_w['nilfunc?' + lz.tag] = 0
                return None
            self.choice_w['nilfunc?' + lz.tag] = 1
            return OpaqueFunc(lz.tag, t)
        if k == 'iface':
            cands = o.get('cands') or IFACE_CANDS.get(t)
            if t == 'error' and cands is None:
                if self.choose(2, 'err?' + lz.tag) == 0:
                    self.choice_w['err?' + lz.tag] = 0
                    return None
                self.choice_w['err?' + lz.tag] = 1
                return self.new_error(lz.tag)
            if cands is None:
                raise Inconclusive('lazy interface %s (%s) has no candidate set' % (t, lz.tag))
            c = cands[self.choose(len(cands), 'dyn?' + lz.tag)]
            if c is None:
                return None
            if callable(c):
                return c(self, lz)
            return Iface(c, self.force_new(c, lz.tag))
        if k == 'map':
            if self.choose(2, 'nilmap?' + lz.tag) == 1:
                return None
            return MapRef(self.new_cell(()))
        raise Inconclusive('lazy of %s' % t)

    def force_new(self, t, tag):
        v = self.fresh(t, tag, {'nonnil': True})
        return self.force(v) if self.prog.kind(t) == 'ptr' else v

    def new_error(self, tag, msg=None, wrapped=None):
        """Fresh opaque error value (never equal to a sentinel)."""
        if msg is None:
            msg = self.fresh_str('errmsg:' + tag)
        cell = self.new_cell(StructV([msg, wrapped]), 'err')
        return Iface('*verif.error', Ptr(cell))

    # ---- events / monitors
    def event(self, *ev):
        self.events.append(ev)

    def hit(self, name):
        self.stubs_hit[name] = self.stubs_hit.get(name, 0) + 1


def _sub_opts(o):
    if not o:
        return o
    if 'nonnil' in o or 'lens' in o or 'cands' in o:
        o = {k: v for k, v in o.items() if k not in ('nonnil', 'lens', 'cands')}
    return o


def _set_path(v, path, i, val):
    s = path[i]
    if i == len(path) - 1:
        nv = val
    else:
        nv = _set_path(v[s], path, i + 1, val)
    if isinstance(v, StructV):
        return v.with_field(s, nv)
    l = list(v)
    l[s] = nv
    return tuple(l)


GLOBAL_INIT = {}    # library global name -> fn(interp) -> initial value
FRESH_HOOKS = {}    # type string -> fn(ctx, t, tag, opts)
LAZY_HOOKS = {}     # type string -> fn(ctx, lazy)
IFACE_CANDS = {}    # interface type -> list of candidate dyn types (None = nil)
SUMMARIES = {}      # summary id -> fn(interp, args, instr): verified summaries of repository functions (DESIGN 3.4)
STUBS = {}          # function name -> fn(interp, args, instr) -> result
INVOKE_STUBS = {}   # (dyn type, method id) -> fn(interp, recv, args, instr)


def stub(*names):
    def deco(f):
        for n in names:
            STUBS[n] = f
        return f
    return deco


# ---------------------------------------------------------------- interpreter

class Frame:
    __slots__ = ('fn', 'regs', 'defers', 'block', 'prev', 'visits')

    def __init__(self, fn):
        self.fn = fn
        self.regs = {}
        self.defers = []
        self.block = 0
        self.prev = -1
        self.visits = {}


class Interp:
    def __init__(self, ctx):
        self.ctx = ctx
        self.prog = ctx.prog

    # ---- operand evaluation
    def val(self, fr, ref):
        k = ref['k']
        if k == 'r':
            return fr.regs[ref['n']]
        if k == 'c':
            if 'cv' in ref:
                return ref['cv']
            n = ref.get('n')
            v = ref.get('v')
            if n == 'int':
                cv = int(v)
            elif n == 'str':
                cv = _str_from_bytes(v)
            elif n == 'zero':
                cv = self.prog.zero(ref['t'])
            elif n == 'float':
                cv = float(v)
            elif isinstance(v, bool):
                cv = v
            else:
                raise Inconclusive('const %r' % (ref,))
            if n == 'int' and self.prog.kind(ref['t']) == 'float':
                cv = float(cv)
            ref['cv'] = cv
            return cv
        if k == 'g':
            return self.global_ptr(ref['n'])
        if k == 'f':
            return Closure(ref['n'])
        if k == 'b':
            return ('builtin', ref['n'])
        raise Inconclusive('ref %r' % (ref,))

    def global_ptr(self, name):
        cid = 'g:' + name
        if cid not in self.ctx.store:
            t = self.prog.globals[name]
            pkg = name.rsplit('.', 1)[0]
            fj = self.prog.funcs.get(pkg + '.init')
            if name in GLOBAL_INIT:
                self.ctx.store[cid] = GLOBAL_INIT[name](self)
            elif (fj is None or not fj.get('hasbody')) and t == 'error':
                # sentinel error of a library whose init is not executed: a unique, stable identity
                ecell = 'e:' + name
                self.ctx.store[ecell] = StructV([name.rsplit('/', 1)[-1]])
                self.ctx.store[cid] = Iface('*errors.errorString', Ptr(ecell))
            else:
                if fj is None or not fj.get('hasbody'):
                    self.ctx.opaque_calls['global:' + name] = self.ctx.opaque_calls.get('global:' + name, 0) + 1
                self.ctx.store[cid] = self.prog.zero(t)
        return Ptr(cid)

    # ---- function execution
    def call_function(self, name, args, instr=None):
        ctx = self.ctx
        sm = ctx.opts.get('summaries')
        if sm and name in sm:
            ctx.hit('summary:' + name)
            return SUMMARIES[sm[name]](self, args, instr)
        st = STUBS.get(name)
        if st is not None:
            ctx.hit(name)
            return st(self, args, instr)
        fj = self.prog.funcs.get(name)
        if fj is None or not fj.get('hasbody'):
            return self.opaque_call(name, fj, args, instr)
        return self.exec_function(fj, args, ())

    def opaque_call(self, name, fj, args, instr):
        ctx = self.ctx
        ctx.opaque_calls[name] = ctx.opaque_calls.get(name, 0) + 1
        if self.ctx.opts.get('strict_opaque'):
            raise Inconclusive('opaque call to %s' % name)
        if fj is not None:
            res = fj['results']
        elif instr is not None and instr.get('t'):
            t = instr['t']
            tj = self.prog.types.get(t)
            res = tj['elems'] if tj and tj['kind'] == 'tuple' else [t]
        else:
            res = []
        vals = [ctx.fresh(t, 'opaque:%s' % name.split('/')[-1]) for t in res]
        if len(vals) == 0:
            return None
        if len(vals) == 1:
            return vals[0]
        return TupleV(vals)

    def exec_function(self, fj, args, binds):
        ctx = self.ctx
        name = fj['name']
        ctx.funcs_run[name] = ctx.funcs_run.get(name, 0) + 1
        fr = Frame(fj)
        params = fj['params']
        if len(args) != len(params):
            raise Inconclusive('arity mismatch calling %s: %d vs %d' % (name, len(args), len(params)))
        for p, a in zip(params, args):
            fr.regs[p['n']] = a
        for p, a in zip(fj['freevars'], binds):
            fr.regs[p['n']] = a
        ctx.depth += 1
        if ctx.depth > 400:
            raise Inconclusive('call depth exceeded in %s' % name)
        ctx.callstack.append(name)
        try:
            try:
                result = self.run_blocks(fr)
            except (Inconclusive, Unwind) as e:
                if not hasattr(e, 'gostack'):
                    e.gostack = list(ctx.callstack)
                raise
            except GoPanic as gp:
                gp.stack.append(name)
                # run deferred calls, then continue panicking (no recover in scope of the encoded code)
                self.run_defers(fr)
                raise
            return result
        finally:
            ctx.depth -= 1
            ctx.callstack.pop()

    def run_defers(self, fr):
        while fr.defers:
            call, args = fr.defers.pop()
            self.do_call_resolved(call, args, None)

    def run_blocks(self, fr):
        ctx = self.ctx
        blocks = fr.fn['blocks']
        bi = 0
        prev = -1
        stats = ctx.stats
        while True:
            blk = blocks[bi]
            n = fr.visits.get(bi, 0) + 1
            fr.visits[bi] = n
            if n > ctx.loop_limit:
                raise Unwind('loop limit in %s block %d' % (fr.fn['name'], bi))
            nxt = None
            for ins in blk['instrs']:
                stats.instrs += 1
                op = ins['op']
                if ins.get('pos'):
                    ctx.cur_pos = ins['pos']
                if op == 'Phi':
                    idx = blk['preds'].index(prev)
                    fr.regs[ins['r']] = self.val(fr, ins['edges'][idx])
                    continue
                if op == 'If':
                    c = self.val(fr, ins['x'])
                    nxt = blk['succs'][0] if ctx.branch(c) else blk['succs'][1]
                    break
                if op == 'Jump':
                    nxt = blk['succs'][0]
                    break
                if op == 'Return':
                    res = [self.val(fr, r) for r in ins['results']]
                    if fr.defers:
                        self.run_defers(fr)
                    if not res:
                        return None
                    if len(res) == 1:
                        return res[0]
                    return TupleV(res)
                h = HANDLERS.get(op)
                if h is None:
                    raise Inconclusive('unsupported instruction %s at %s' % (op, ins.get('pos')))
                h(self, fr, ins)
            if stats.instrs > ctx.instr_budget:
                raise Unwind('instruction budget exceeded')
            if nxt is None:
                raise Inconclusive('block %d of %s fell through' % (bi, fr.fn['name']))
            prev = bi
            bi = nxt

    # ---- calls
    def do_call(self, fr, call, instr):
        mode = call['mode']
        args = [self.val(fr, a) for a in call['args']]
        if mode == 'static':
            return self.call_function(call['fn']['n'], args, instr)
        if mode == 'builtin':
            return self.builtin(call['fn']['n'], args, call, instr)
        if mode == 'closure':
            f = self.ctx.force(self.val(fr, call['fn']))
            return self.call_value(f, args, instr)
        if mode == 'invoke':
            recv = self.ctx.force(self.val(fr, call['recv']))
            return self.invoke(recv, call['method'], args, instr, call.get('recvt'))
        raise Inconclusive('call mode ' + mode)

    def do_call_resolved(self, call, args, instr):
        kind = call[0]
        if kind == 'static':
            return self.call_function(call[1], args, instr)
        if kind == 'builtin':
            return self.builtin(call[1], args, None, instr)
        if kind == 'closure':
            return self.call_value(call[1], args, instr)
        if kind == 'invoke':
            return self.invoke(call[1], call[2], args, instr, None)

    def call_value(self, f, args, instr):
        ctx = self.ctx
        f = ctx.force(f)
        if f is None:
            raise GoPanic('nil-func-call', ctx.cur_pos)
        if isinstance(f, Closure):
            if f.binds:
                fj = self.prog.funcs.get(f.fn)
                st = STUBS.get(f.fn)
                if st is not None:
                    return st(self, list(args), instr)
                return self.exec_function(fj, args, f.binds)
            return self.call_function(f.fn, args, instr)
        if isinstance(f, PyFunc):
            return f.fn(self, args, instr)
        if isinstance(f, OpaqueFunc):
            return self.opaque_callback(f, args, instr)
        raise Inconclusive('call of %r' % (f,))

    def opaque_callback(self, f, args, instr):
        """Configuration hook: result is an arbitrary value (fresh per call)."""
        ctx = self.ctx
        ctx.event('callback', f.tag, tuple(args))
        tj = self.prog.types.get(f.sig)
        ut, tj = self.prog.under(f.sig)
        res = tj['results']
        vals = [ctx.fresh(t, 'cb:%s' % f.tag) for t in res]
        ctx.ghost.setdefault('callback_results', []).append((f.tag, tuple(args), vals))
        if not vals:
            return None
        if len(vals) == 1:
            return vals[0]
        return TupleV(vals)

    def invoke(self, recv, mid, args, instr, recvt=None):
        ctx = self.ctx
        if recv is None:
            raise GoPanic('nil-interface-invoke', ctx.cur_pos)
        if not isinstance(recv, Iface):
            raise Inconclusive('invoke on %r' % (recv,))
        st = INVOKE_STUBS.get((recv.dyn, mid))
        if st is not None:
            ctx.hit('%s.%s' % (recv.dyn, mid))
            return st(self, recv.val, args, instr)
        fn = self.prog.method(recv.dyn, mid)
        if fn is None:
            st = INVOKE_STUBS.get(('*', mid))
            if st is not None:
                return st(self, recv, args, instr)
            raise Inconclusive('no method %s on dynamic type %s' % (mid, recv.dyn))
        return self.call_function(fn, [recv.val] + list(args), instr)

    # ---- builtins
    def builtin(self, name, args, call, instr):
        ctx = self.ctx
        if name == 'len':
            return self.length(args[0])
        if name == 'cap':
            v = ctx.force(args[0])
            if isinstance(v, Slice):
                return v.cap
            raise Inconclusive('cap of %r' % (v,))
        if name == 'append':
            return self.append(args[0], args[1], instr)
        if name == 'copy':
            return self.copy(args[0], args[1])
        if name == 'delete':
            m = ctx.force(args[0])
            if m is None:
                return None
            if ctx.opts.get('trace_shared'):
                ctx.event('acc', 'w', ('map', m.cell), ctx.cur_pos)
            ents = ctx.store[m.cell]
            out = []
            for (k, v) in ents:
                if ctx.branch(self.eq(k, args[1])):
                    continue
                out.append((k, v))
            ctx.store[m.cell] = tuple(out)
            return None
        if name == 'panic':
            raise GoPanic('explicit', ctx.cur_pos, args[0])
        if name in ('print', 'println'):
            return None
        if name == 'recover':
            return None
        if name == 'ssa:wrapnilchk':
            p = ctx.force(args[0])
            if p is None:
                raise GoPanic('nil-deref', ctx.cur_pos)
            return p
        if name in ('min', 'max'):
            r = args[0]
            for a in args[1:]:
                c = self.lt(a, r) if name == 'min' else self.lt(r, a)
                r = b_ite(c, a, r)
            return r
        if name == 'clear':
            m = ctx.force(args[0])
            if isinstance(m, MapRef):
                ctx.store[m.cell] = ()
            return None
        raise Inconclusive('builtin %s' % name)

    def length(self, v):
        ctx = self.ctx
        v = ctx.force(v)
        if isinstance(v, str):
            return len(v)
        if is_sym(v):
            if ctx.opts.get('dec_tokens') and TOKEN_HOOKS.get('has') and TOKEN_HOOKS['has'](v):
                n = TOKEN_HOOKS['length'](v)
                if n is not None:
                    return n
            return z3.Length(v)
        if isinstance(v, Slice):
            return v.len
        if isinstance(v, SymBytes):
            return z3.Length(v.s)
        if v is None:
            return 0
        if isinstance(v, MapRef):
            return len(ctx.store[v.cell])
        if isinstance(v, tuple):
            return len(v)
        if isinstance(v, Ptr):   # pointer to array
            return len(ctx.load(v))
        raise Inconclusive('len of %r' % (v,))

    def slice_elems(self, s):
        """Elements of a slice as a python list."""
        ctx = self.ctx
        s = ctx.force(s)
        if isinstance(s, SymBytes):
            return self.string_bytes(s.s)
        if s is None or s.base is None or s.len == 0:
            return []
        arr = ctx.load(s.base)
        return list(arr[s.off:s.off + s.len])

    def make_slice(self, elems, cap=None, tag=''):
        elems = tuple(elems)
        n = len(elems)
        if cap is None:
            cap = n
        if cap > n:
            raise Inconclusive('make_slice cap>len requires zero fill')
        return Slice(self.ctx.alloc(elems, tag), 0, n, cap)

    def append(self, s, t, instr):
        ctx = self.ctx
        s = ctx.force(s)
        t = ctx.force(t)
        if isinstance(t, str) or is_sym(t):
            add = self.string_bytes(t)
        else:
            add = self.slice_elems(t)
        if not add:
            return s
        n = len(add)
        if s.base is not None and s.len + n <= s.cap:
            arr = list(ctx.load(s.base))
            arr[s.off + s.len:s.off + s.len + n] = add
            ctx.store_(s.base, tuple(arr))
            return Slice(s.base, s.off, s.len + n, s.cap)
        old = self.slice_elems(s)
        new = tuple(old + add)
        return Slice(ctx.alloc(new, 'append'), 0, len(new), len(new))

    def copy(self, dst, src):
        ctx = self.ctx
        dst = ctx.force(dst)
        src = ctx.force(src)
        if isinstance(src, str) or is_sym(src):
            sv = self.string_bytes(src)
        else:
            sv = self.slice_elems(src)
        n = min(dst.len, len(sv))
        if n == 0:
            return 0
        arr = list(ctx.load(dst.base))
        arr[dst.off:dst.off + n] = sv[:n]
        ctx.store_(dst.base, tuple(arr))
        return n

    def string_bytes(self, s):
        """String -> list of byte values (concretising the length if needed)."""
        ctx = self.ctx
        if isinstance(s, str):
            return [ord(c) for c in s]
        n = ctx.concretize(z3.Length(s), 0, ctx.opts.get('maxstr', 8), 'strlen')
        out = []
        for i in range(n):
            out.append(z3.simplify(z3.StrToCode(z3.SubString(s, i, 1))))
        return out

    def bytes_string(self, elems):
        if all(isinstance(e, int) for e in elems):
            return ''.join(chr(e) for e in elems)
        if not elems:
            return ''
        parts = [z3.StrFromCode(zint(e)) for e in elems]
        return z3.Concat(*parts) if len(parts) > 1 else parts[0]

    # ---- comparisons
    def eq(self, a, b):
        ctx = self.ctx
        a = ctx.force(a)
        b = ctx.force(b)
        if a is None or b is None:
            if a is None and b is None:
                return True
            o = b if a is None else a
            if isinstance(o, Slice):
                return o.base is None
            return False
        if isinstance(a, (bool, int, str, float)) and isinstance(b, (bool, int, str, float)):
            return a == b
        if is_sym(a) or is_sym(b):
            if isinstance(a, str) or isinstance(b, str):
                if ctx.opts.get('dec_tokens') and TOKEN_HOOKS.get('has'):
                    sym, conc = (a, b) if is_sym(a) else (b, a)
                    if conc == '' and TOKEN_HOOKS['has'](sym) and TOKEN_HOOKS['nonempty'](sym):
                        return False      # a numeral token is never the empty string
                return zstr(a) == zstr(b)
            if isinstance(a, bool) or isinstance(b, bool):
                return zbool(a) == zbool(b)
            if isinstance(a, float) or isinstance(b, float) or (is_sym(a) and z3.is_fp(a)) or (is_sym(b) and z3.is_fp(b)):
                return z3.fpEQ(_zfp(a), _zfp(b))
            if isinstance(a, int) or isinstance(b, int):
                return zint(a) == zint(b)
            return a == b
        if isinstance(a, Ptr) and isinstance(b, Ptr):
            return a == b
        if isinstance(a, StructV) and isinstance(b, StructV):
            return b_and(*[self.eq(x, y) for x, y in zip(a, b)])
        if isinstance(a, TimeV) and isinstance(b, TimeV):
            return self.eq(a.ns, b.ns)
        if isinstance(a, Iface) and isinstance(b, Iface):
            if a.dyn != b.dyn:
                return False
            return self.eq(a.val, b.val)
        if isinstance(a, tuple) and isinstance(b, tuple):
            return b_and(*[self.eq(x, y) for x, y in zip(a, b)])
        if isinstance(a, (MapRef, Closure, Opaque)) or isinstance(b, (MapRef, Closure, Opaque)):
            return a == b
        if type(a) != type(b):
            return False
        if isinstance(a, Slice) and isinstance(b, Slice):
            return a.base is None and b.base is None
        raise Inconclusive('eq of %r and %r' % (a, b))

    def lt(self, a, b):
        if not is_sym(a) and not is_sym(b):
            return a < b
        if isinstance(a, str) or isinstance(b, str) or (is_sym(a) and z3.is_string(a)):
            return zstr(a) < zstr(b)
        if isinstance(a, float) or isinstance(b, float) or (is_sym(a) and z3.is_fp(a)) or (is_sym(b) and z3.is_fp(b)):
            return z3.fpLT(_zfp(a), _zfp(b))
        return zint(a) < zint(b)

    # ---- harness entry
    def run_harness(self, name):
        fj = self.prog.funcs[name]
        return self.exec_function(fj, [], ())


def _zfp(v):
    if is_sym(v):
        return v
    return z3.FPVal(v, z3.Float64())


# ---------------------------------------------------------------- instruction handlers

def h_alloc(I, fr, ins):
    t = I.prog.elem(ins['t'])
    fr.regs[ins['r']] = I.ctx.alloc(I.prog.zero(t), ins.get('comment', ''))


def h_binop(I, fr, ins):
    x = I.val(fr, ins['x'])
    y = I.val(fr, ins['y'])
    fr.regs[ins['r']] = binop(I, ins['o'], x, y, ins['xt'], ins['t'], ins)


def binop(I, o, x, y, xt, rt, ins=None):
    ctx = I.ctx
    if o == '==':
        return I.eq(x, y)
    if o == '!=':
        return b_not(I.eq(x, y))
    x = ctx.force(x)
    y = ctx.force(y)
    k = I.prog.kind(xt)
    if o in ('<', '<=', '>', '>='):
        if o == '<':
            return I.lt(x, y)
        if o == '>':
            return I.lt(y, x)
        if o == '<=':
            return b_not(I.lt(y, x))
        return b_not(I.lt(x, y))
    if k == 'string':
        if o == '+':
            if isinstance(x, str) and isinstance(y, str):
                return x + y
            if isinstance(x, str) and x == '':
                return y
            if isinstance(y, str) and y == '':
                return x
            return z3.Concat(zstr(x), zstr(y))
        raise Inconclusive('string op ' + o)
    if k == 'bool':
        if o == '&&' or o == '&':
            return b_and(x, y)
        if o == '||' or o == '|':
            return b_or(x, y)
        raise Inconclusive('bool op ' + o)
    if k == 'float':
        return float_binop(o, x, y)
    if k == 'int':
        bits, signed = I.prog.intinfo(rt)
        bx, by = bounds_of(x), bounds_of(y)
        if o == '+':
            return wrap_b(x + y, bits, signed, (bx[0] + by[0], bx[1] + by[1]) if bx and by else None)
        if o == '-':
            return wrap_b(x - y, bits, signed, (bx[0] - by[1], bx[1] - by[0]) if bx and by else None)
        if o == '*':
            b = None
            if bx and by:
                c = [bx[0] * by[0], bx[0] * by[1], bx[1] * by[0], bx[1] * by[1]]
                b = (min(c), max(c))
            return wrap_b(x * y, bits, signed, b)
        if o == '/' or o == '%':
            if is_sym(y):
                if ctx.branch(y == 0):
                    raise GoPanic('divide-by-zero', ctx.cur_pos)
            elif y == 0:
                raise GoPanic('divide-by-zero', ctx.cur_pos)
            if not is_sym(y) and y > 0 and bx is not None and is_sym(x):
                # truncating division / remainder by a positive constant
                if bx[0] >= 0:
                    q = x / y
                    if o == '/':
                        return set_bounds(q, bx[0] // y, bx[1] // y)
                    r = set_bounds(x % y, 0, min(y - 1, bx[1]))
                    # valid lemmas relating remainders of the same term by constants that divide one another
                    # ((x mod c') mod c = x mod c when c | c'); they spare the solver a hard divisibility argument
                    seen = MODS.setdefault(x.get_id(), [])
                    for (c2, t2) in seen:
                        if c2 != y and c2 % y == 0:
                            ctx.add_inv(t2 % y == r)
                        elif c2 != y and y % c2 == 0:
                            ctx.add_inv(r % c2 == t2)
                    seen.append((y, r))
                    MODS_KEEP.append(x)
                    return r
                q = tdiv(x, y)
                if o == '/':
                    return set_bounds(q, -((-bx[0]) // y), max(bx[1], 0) // y)
                return set_bounds(x - y * q, -(y - 1), y - 1)
            q = tdiv(x, y)
            if o == '/':
                return wrap(q, bits, signed)
            return x - y * q
        if o in ('<<', '>>'):
            if is_sym(y):
                y = ctx.concretize(y, 0, 64, 'shift')
            if o == '<<':
                return wrap(x * (1 << y), bits, signed) if y < 2 * bits else 0
            if is_sym(x):
                return x / (1 << y)     # floor division == arithmetic shift for both signs
            return x >> y
        if o in ('&', '|', '^', '&^'):
            if not is_sym(x) and not is_sym(y):
                m = (1 << bits) - 1
                ux, uy = x & m, y & m
                r = {'&': ux & uy, '|': ux | uy, '^': ux ^ uy, '&^': ux & ~uy}[o]
                return wrap(r, bits, signed)
            # symbolic bit ops through bit-vectors
            bx = z3.Int2BV(zint(x), bits)
            by = z3.Int2BV(zint(y), bits)
            r = {'&': bx & by, '|': bx | by, '^': bx ^ by, '&^': bx & ~by}[o]
            return z3.BV2Int(r, signed)
        raise Inconclusive('int op ' + o)
    raise Inconclusive('binop %s on %s' % (o, xt))


def float_binop(o, x, y):
    if not is_sym(x) and not is_sym(y):
        if o == '+':
            return x + y
        if o == '-':
            return x - y
        if o == '*':
            return x * y
        if o == '/':
            return x / y
    x, y = _zfp(x), _zfp(y)
    rm = z3.RNE()
    if o == '+':
        return z3.fpAdd(rm, x, y)
    if o == '-':
        return z3.fpSub(rm, x, y)
    if o == '*':
        return z3.fpMul(rm, x, y)
    if o == '/':
        return z3.fpDiv(rm, x, y)
    raise Inconclusive('float op ' + o)


def h_call(I, fr, ins):
    r = I.do_call(fr, ins['call'], ins)
    fr.regs[ins['r']] = r


def h_change_interface(I, fr, ins):
    fr.regs[ins['r']] = I.val(fr, ins['x'])


def h_change_type(I, fr, ins):
    fr.regs[ins['r']] = I.val(fr, ins['x'])


def h_convert(I, fr, ins):
    x = I.ctx.force(I.val(fr, ins['x']))
    fr.regs[ins['r']] = convert(I, x, ins['xt'], ins['t'])


def convert(I, x, ft, tt):
    p = I.prog
    fk, tk = p.kind(ft), p.kind(tt)
    if fk == 'int' and tk == 'int':
        bits, signed = p.intinfo(tt)
        fb, fs = p.intinfo(ft)
        if is_sym(x) and fb <= bits and (fs == signed or (not fs and bits > fb)):
            return x
        return wrap_b(x, bits, signed, bounds_of(x)) if is_sym(x) else wrap(x, bits, signed)
    if fk == 'string' and tk == 'slice':
        et = p.elem(tt)
        if p.kind(et) == 'int' and p.intinfo(et)[0] == 8:
            if is_sym(x):
                return SymBytes(x)     # materialised byte by byte only if the code indexes into it
            bs = I.string_bytes(x)
            return Slice(I.ctx.alloc(tuple(bs), 'bytes'), 0, len(bs), len(bs))
        if isinstance(x, str):   # []rune
            rs = [ord(c) for c in x.encode('latin-1').decode('utf-8', errors='replace')]
            return Slice(I.ctx.alloc(tuple(rs), 'runes'), 0, len(rs), len(rs))
        raise Inconclusive('string->[]rune symbolic')
    if fk == 'slice' and tk == 'string':
        if isinstance(x, SymBytes):
            return x.s
        el = I.slice_elems(x)
        et = p.elem(ft)
        if p.intinfo(et)[0] == 8:
            return I.bytes_string(el)
        if all(isinstance(e, int) for e in el):
            return ''.join(go_bytes_of_rune(e) for e in el)
        raise Inconclusive('[]rune->string symbolic')
    if fk == 'int' and tk == 'string':
        if is_sym(x):
            # single byte values below 0x80 map to themselves
            raise Inconclusive('string(symbolic int)')
        return go_bytes_of_rune(x)
    if fk == 'string' and tk == 'string':
        return x
    if fk == 'int' and tk == 'float':
        if is_sym(x):
            return z3.fpToFP(z3.RNE(), z3.ToReal(x), z3.Float64())
        return float(x)
    if fk == 'float' and tk == 'int':
        bits, signed = p.intinfo(tt)
        if is_sym(x):
            # Go: truncation toward zero (out-of-range is implementation-defined)
            r = z3.fpToReal(z3.fpRoundToIntegral(z3.RTZ(), x))
            return z3.ToInt(r)
        return wrap(int(x), bits, signed)
    if fk == 'float' and tk == 'float':
        return x
    if fk == tk and fk in ('ptr', 'slice', 'struct', 'map', 'func', 'time', 'unsafe', 'array', 'bool'):
        return x
    if tk == 'unsafe' or fk == 'unsafe':
        return x
    raise Inconclusive('convert %s -> %s' % (ft, tt))


def h_defer(I, fr, ins):
    call = ins['call']
    args = [I.val(fr, a) for a in call['args']]
    mode = call['mode']
    if mode == 'static':
        fr.defers.append((('static', call['fn']['n']), args))
    elif mode == 'builtin':
        fr.defers.append((('builtin', call['fn']['n']), args))
    elif mode == 'closure':
        fr.defers.append((('closure', I.val(fr, call['fn'])), args))
    else:
        fr.defers.append((('invoke', I.ctx.force(I.val(fr, call['recv'])), call['method']), args))


def h_rundefers(I, fr, ins):
    I.run_defers(fr)


def h_extract(I, fr, ins):
    t = I.val(fr, ins['x'])
    fr.regs[ins['r']] = t[ins['field']]


def h_field(I, fr, ins):
    x = I.val(fr, ins['x'])
    fr.regs[ins['r']] = x[ins['field']]


def h_fieldaddr(I, fr, ins):
    ctx = I.ctx
    x = ctx.force(I.val(fr, ins['x']))
    if x is None:
        raise GoPanic('nil-deref', ins.get('pos', ''))
    if not isinstance(x, Ptr):
        raise Inconclusive('FieldAddr on %r at %s' % (x, ins.get('pos')))
    fr.regs[ins['r']] = Ptr(x.cell, x.path + (ins['field'],))


def index_of(I, idx, n, pos):
    """Concretise an index against length n; raise the Go panic when out of range."""
    ctx = I.ctx
    if is_sym(idx):
        idx = z3.simplify(idx)
        if z3.is_int_value(idx):
            idx = idx.as_long()
    if is_sym(idx):
        if ctx.branch(z3.Or(idx < 0, idx >= n)):
            raise GoPanic('index-out-of-range', pos)
        return ctx.concretize(idx, 0, n - 1, 'index')
    if idx < 0 or idx >= n:
        raise GoPanic('index-out-of-range', pos)
    return idx


def h_indexaddr(I, fr, ins):
    ctx = I.ctx
    x = ctx.force(I.val(fr, ins['x']))
    idx = I.val(fr, ins['y'])
    pos = ins.get('pos', '')
    if isinstance(x, Slice):
        i = index_of(I, idx, x.len, pos)
        fr.regs[ins['r']] = Ptr(x.base.cell, x.base.path + (x.off + i,))
        return
    if x is None:
        raise GoPanic('nil-deref', pos)
    if isinstance(x, Ptr):   # pointer to array
        arr = ctx.load(x)
        i = index_of(I, idx, len(arr), pos)
        fr.regs[ins['r']] = Ptr(x.cell, x.path + (i,))
        return
    raise Inconclusive('IndexAddr on %r' % (x,))


def h_index(I, fr, ins):
    ctx = I.ctx
    x = ctx.force(I.val(fr, ins['x']))
    idx = I.val(fr, ins['y'])
    pos = ins.get('pos', '')
    if isinstance(x, str):
        i = index_of(I, idx, len(x), pos)
        fr.regs[ins['r']] = ord(x[i])
        return
    if is_sym(x):   # symbolic string
        n = z3.Length(x)
        if ctx.branch(z3.Or(zint(idx) < 0, zint(idx) >= n)):
            raise GoPanic('index-out-of-range', pos)
        fr.regs[ins['r']] = z3.StrToCode(z3.SubString(x, zint(idx), 1))
        return
    if isinstance(x, tuple):
        i = index_of(I, idx, len(x), pos)
        fr.regs[ins['r']] = x[i]
        return
    raise Inconclusive('Index on %r' % (x,))


def h_lookup(I, fr, ins):
    ctx = I.ctx
    m = ctx.force(I.val(fr, ins['x']))
    key = I.val(fr, ins['y'])
    if isinstance(m, str) or (is_sym(m) and z3.is_string(m)):
        return h_index(I, fr, ins)
    ut, tj = I.prog.under(ins['xt'])
    zero = I.prog.zero(tj['elem'])
    found, val = False, zero
    if m is not None and ctx.opts.get('trace_shared'):
        ctx.event('acc', 'r', ('map', m.cell), ins.get('pos', ''))
    if m is not None:
        for (k, v) in ctx.store[m.cell]:
            if ctx.branch(I.eq(k, key)):
                found, val = True, v
                break
    fr.regs[ins['r']] = TupleV((val, found)) if ins.get('commaok') else val


def h_mapupdate(I, fr, ins):
    ctx = I.ctx
    m = ctx.force(I.val(fr, ins['x']))
    key = I.val(fr, ins['y'])
    val = I.val(fr, ins['z'])
    if m is None:
        raise GoPanic('assignment-to-nil-map', ins.get('pos', ''))
    if ctx.opts.get('trace_shared'):
        ctx.event('acc', 'w', ('map', m.cell), ins.get('pos', ''))
    ents = list(ctx.store[m.cell])
    for i, (k, v) in enumerate(ents):
        if ctx.branch(I.eq(k, key)):
            ents[i] = (k, val)
            ctx.store[m.cell] = tuple(ents)
            return
    ents.append((key, val))
    ctx.store[m.cell] = tuple(ents)


def h_makemap(I, fr, ins):
    fr.regs[ins['r']] = MapRef(I.ctx.new_cell((), 'map'))


def h_makeslice(I, fr, ins):
    ctx = I.ctx
    n = I.val(fr, ins['x'])
    c = I.val(fr, ins['y'])
    n = ctx.concretize(n, 0, ctx.opts.get('maxmake', 80), 'makeslice-len')
    c = ctx.concretize(c, 0, ctx.opts.get('maxmake', 80), 'makeslice-cap')
    if n < 0 or c < n:
        raise GoPanic('makeslice-len-out-of-range', ins.get('pos', ''))
    if c > 100000:
        raise Inconclusive('makeslice too large: %d' % c)
    et = I.prog.elem(ins['t'])
    z = I.prog.zero(et)
    fr.regs[ins['r']] = Slice(ctx.alloc(tuple([z] * c), 'make'), 0, n, c)


def h_makeclosure(I, fr, ins):
    fn = ins['x']['n']
    fr.regs[ins['r']] = Closure(fn, [I.val(fr, b) for b in ins['binds']])


def h_makeinterface(I, fr, ins):
    x = I.val(fr, ins['x'])
    fr.regs[ins['r']] = Iface(ins['xt'], x)


def h_next(I, fr, ins):
    it = I.val(fr, ins['x'])
    if it.pos >= len(it.items):
        fr.regs[ins['r']] = TupleV((False, None, None))
        return
    k, v = it.items[it.pos]
    it.pos += 1
    fr.regs[ins['r']] = TupleV((True, k, v))


def h_range(I, fr, ins):
    ctx = I.ctx
    x = ctx.force(I.val(fr, ins['x']))
    if isinstance(x, str):
        items = []
        b = x.encode('latin-1')
        i = 0
        while i < len(b):
            # decode one UTF-8 rune as Go does
            for l in (1, 2, 3, 4):
                try:
                    ch = b[i:i + l].decode('utf-8')
                    if len(ch) == 1:
                        items.append((i, ord(ch)))
                        i += l
                        break
                except UnicodeDecodeError:
                    continue
            else:
                items.append((i, 0xFFFD))
                i += 1
        fr.regs[ins['r']] = RangeIter('string', items)
        return
    if is_sym(x):
        n = ctx.concretize(z3.Length(x), 0, ctx.opts.get('maxstr', 8), 'strlen')
        items = []
        for i in range(n):
            c = z3.StrToCode(z3.SubString(x, i, 1))
            ctx.assume(c < 0x80, 'ascii-only symbolic range over string')
            items.append((i, c))
        fr.regs[ins['r']] = RangeIter('string', items)
        return
    if x is None:
        fr.regs[ins['r']] = RangeIter('map', [])
        return
    if isinstance(x, MapRef):
        if ctx.opts.get('trace_shared'):
            ctx.event('acc', 'r', ('map', x.cell), ins.get('pos', ''))
        fr.regs[ins['r']] = RangeIter('map', list(ctx.store[x.cell]))
        return
    raise Inconclusive('range over %r' % (x,))


def h_panic(I, fr, ins):
    raise GoPanic('explicit', ins.get('pos', ''), I.val(fr, ins['x']))


def h_slice(I, fr, ins):
    ctx = I.ctx
    x = ctx.force(I.val(fr, ins['x']))
    lo = I.val(fr, ins['y']) if ins.get('y') else None
    hi = I.val(fr, ins['z']) if ins.get('z') else None
    mx = I.val(fr, ins['w']) if ins.get('w') else None
    pos = ins.get('pos', '')
    if isinstance(x, str) or (is_sym(x) and z3.is_string(x)):
        n = I.length(x)
        lo = 0 if lo is None else lo
        hi = n if hi is None else hi
        bad = b_or(I.lt(lo, 0), I.lt(hi, lo), I.lt(n, hi))
        if ctx.branch(bad):
            raise GoPanic('slice-bounds-out-of-range', pos)
        if isinstance(x, str) and not is_sym(lo) and not is_sym(hi):
            fr.regs[ins['r']] = x[lo:hi]
        else:
            fr.regs[ins['r']] = z3.SubString(zstr(x), zint(lo), zint(hi) - zint(lo))
        return
    if isinstance(x, Ptr):     # pointer to array
        arr = ctx.load(x)
        base, off, ln, cap = x, 0, len(arr), len(arr)
    elif isinstance(x, Slice):
        base, off, ln, cap = x.base, x.off, x.len, x.cap
    elif x is None:
        raise GoPanic('nil-deref', pos)
    else:
        raise Inconclusive('Slice of %r' % (x,))
    lo = 0 if lo is None else lo
    hi = ln if hi is None else hi
    mxv = cap if mx is None else mx
    bad = b_or(I.lt(lo, 0), I.lt(hi, lo), I.lt(mxv, hi), I.lt(cap, mxv))
    if ctx.branch(bad):
        raise GoPanic('slice-bounds-out-of-range', pos)
    lo = ctx.concretize(lo, 0, cap, 'slice-lo')
    hi = ctx.concretize(hi, lo, cap, 'slice-hi')
    mxv = ctx.concretize(mxv, hi, cap, 'slice-max')
    if base is None:
        fr.regs[ins['r']] = NIL_SLICE if isinstance(x, Slice) and x.base is None else Slice(None, 0, 0, 0)
        return
    fr.regs[ins['r']] = Slice(base, off + lo, hi - lo, mxv - lo)


def h_store(I, fr, ins):
    ctx = I.ctx
    a = ctx.force(I.val(fr, ins['x']))
    v = I.val(fr, ins['y'])
    if a is None:
        raise GoPanic('nil-deref', ins.get('pos', ''))
    if ctx.opts.get('trace_shared') and isinstance(a, Ptr):
        if a.path and isinstance(ctx.force(v) if not isinstance(v, Lazy) else None, MapRef):
            ctx.event('acc', 'w', ('field', a.cell, a.path), ins.get('pos', ''))
        if a.cell in ctx.ghost.get('shared_cells', ()):
            ctx.event('acc', 'w', ('cell', a.cell), ins.get('pos', ''))
    ctx.store_(a, v)


def implements(I, dyn, iface_t):
    s = I.prog.implements.get(iface_t)
    if s is not None and dyn in s:
        return True
    ut, tj = I.prog.under(iface_t)
    if tj is None:
        return False
    ms = I.prog.methodsets.get(dyn)
    if ms is None:
        extra = OPAQUE_IMPLEMENTS.get(dyn)
        if extra is not None:
            return iface_t in extra or ut in extra
        return False
    return all(m in ms for m in tj.get('methods') or [])


OPAQUE_IMPLEMENTS = {'*verif.error': {'error'}}


def h_typeassert(I, fr, ins):
    ctx = I.ctx
    x = ctx.force(I.val(fr, ins['x']))
    at = ins['at']
    if I.prog.kind(at) == 'iface':
        ok = x is not None and implements(I, x.dyn, at)
        val = x if ok else None
    else:
        ok = x is not None and x.dyn == at
        val = x.val if ok else I.prog.zero(at)
    if ins.get('commaok'):
        fr.regs[ins['r']] = TupleV((val, ok))
    else:
        if not ok:
            raise GoPanic('type-assertion-failed', ins.get('pos', ''))
        fr.regs[ins['r']] = val


def h_unop(I, fr, ins):
    ctx = I.ctx
    o = ins['o']
    x = I.val(fr, ins['x'])
    if o == '*':
        p = ctx.force(x)
        if p is None:
            raise GoPanic('nil-deref', ins.get('pos', ''))
        if not isinstance(p, Ptr):
            raise Inconclusive('load through %r at %s' % (p, ins.get('pos')))
        if ctx.opts.get('trace_shared'):
            if p.path and I.prog.kind(ins['t']) == 'map':
                ctx.event('acc', 'r', ('field', p.cell, p.path), ins.get('pos', ''))
            if p.cell in ctx.ghost.get('shared_cells', ()):
                ctx.event('acc', 'r', ('cell', p.cell), ins.get('pos', ''))
        fr.regs[ins['r']] = ctx.load(p)
        return
    if o == '!':
        fr.regs[ins['r']] = b_not(x)
        return
    if o == '-':
        if I.prog.kind(ins['t']) == 'float':
            fr.regs[ins['r']] = -x if not is_sym(x) else z3.fpNeg(x)
            return
        bits, signed = I.prog.intinfo(ins['t'])
        bx = bounds_of(x)
        fr.regs[ins['r']] = wrap_b(-x, bits, signed, (-bx[1], -bx[0]) if bx else None) if is_sym(x) else wrap(-x, bits, signed)
        return
    if o == '^':
        bits, signed = I.prog.intinfo(ins['t'])
        fr.regs[ins['r']] = wrap(-x - 1, bits, signed)
        return
    raise Inconclusive('unop ' + o)


def h_slice_to_array_ptr(I, fr, ins):
    x = I.ctx.force(I.val(fr, ins['x']))
    raise Inconclusive('SliceToArrayPointer')


def h_go(I, fr, ins):
    raise Inconclusive('go statement at %s' % ins.get('pos'))


HANDLERS = {
    'Alloc': h_alloc, 'BinOp': h_binop, 'Call': h_call, 'ChangeInterface': h_change_interface,
    'ChangeType': h_change_type, 'Convert': h_convert, 'Defer': h_defer, 'RunDefers': h_rundefers,
    'Extract': h_extract, 'Field': h_field, 'FieldAddr': h_fieldaddr, 'IndexAddr': h_indexaddr,
    'Index': h_index, 'Lookup': h_lookup, 'MapUpdate': h_mapupdate, 'MakeMap': h_makemap,
    'MakeSlice': h_makeslice, 'MakeClosure': h_makeclosure, 'MakeInterface': h_makeinterface,
    'Next': h_next, 'Range': h_range, 'Panic': h_panic, 'Slice': h_slice, 'Store': h_store,
    'TypeAssert': h_typeassert, 'UnOp': h_unop, 'SliceToArrayPointer': h_slice_to_array_ptr, 'Go': h_go,
}
