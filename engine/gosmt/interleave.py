"""Bounded interleaving model (DESIGN.md C20 / Appendix C.6).

Input: per operation, the event traces extracted by symbolic execution of the real handlers
(lock events on named mutexes, read/write accesses to named shared objects).
For every multiset of k operations' traces, z3 decides over a *symbolic schedule* whether
  - a state is reachable in which some thread is unfinished and no unfinished thread is enabled (deadlock);
  - a state is reachable in which two threads' next events are conflicting accesses to the same object (race).
RWMutex semantics are Go's, including writer preference (a pending Lock blocks new RLocks).
"""
import itertools, time
import z3


def normalise(events, names):
    """events: raw ctx events -> list of ('L'|'RL'|'U'|'RU'|'LA', mutex) / ('r'|'w', object); unnamed objects are thread-local."""
    out = []
    op = None
    for e in events:
        if e[0] == 'op':
            op = e[1]
            out = []          # only what happens inside the operation counts (set-up before it is not concurrent)
            continue
        if e[0] == 'lock':
            name = names.get(repr(('ptr',) + tuple(e[2])))
            if name is None:
                continue
            k = {'Lock': 'L', 'Unlock': 'U', 'RLock': 'RL', 'RUnlock': 'RU'}[e[1]]
            if k == 'L':
                out.append(('LA', name, e[3]))      # announce: the writer is now pending
            out.append((k, name, e[3]))
        elif e[0] == 'acc':
            obj = e[2]
            if obj[0] == 'map':
                name = names.get(repr(('map', obj[1])))
            elif obj[0] == 'cell':
                name = names.get(repr(('cell', obj[1])))
            else:
                name = names.get(repr(('ptr', obj[1], tuple(obj[2]))))
            if name is None:
                continue
            out.append((e[1], name, e[3]))
    # merge adjacent identical accesses
    merged = []
    for ev in out:
        if merged and merged[-1][:2] == ev[:2] and ev[0] in ('r', 'w'):
            continue
        merged.append(ev)
    return op, merged


def check_combo(traces, timeout_ms=20000):
    """traces: list of event lists (one per thread). Returns dict(deadlock=model|None, race=model|None, unknown=bool, solver_s)."""
    k = len(traces)
    N = sum(len(t) for t in traces)
    mutexes = sorted({e[1] for t in traces for e in t if e[0] in ('L', 'LA', 'U', 'RL', 'RU')})
    res = {'deadlock': None, 'race': None, 'unknown': False, 'solver_s': 0.0, 'queries': 0, 'steps': N}
    if N == 0:
        return res
    sched = [z3.Int('s%d' % t) for t in range(N)]
    pc = [[z3.Int('pc%d_%d' % (i, t)) for t in range(N + 1)] for i in range(k)]
    rd = {m: [z3.Int('rd_%s_%d' % (m, t)) for t in range(N + 1)] for m in mutexes}
    wr = {m: [z3.Bool('wr_%s_%d' % (m, t)) for t in range(N + 1)] for m in mutexes}
    pd = {m: [z3.Int('pd_%s_%d' % (m, t)) for t in range(N + 1)] for m in mutexes}
    base = []
    for i in range(k):
        base.append(pc[i][0] == 0)
    for m in mutexes:
        base += [rd[m][0] == 0, z3.Not(wr[m][0]), pd[m][0] == 0]

    def enabled(i, t):
        """thread i's next event is enabled in state t (or it is finished -> False)."""
        conds = []
        for j, ev in enumerate(traces[i]):
            kind, m = ev[0], ev[1]
            if kind == 'RL':
                c = z3.And(z3.Not(wr[m][t]), pd[m][t] == 0)
            elif kind == 'L':
                c = z3.And(z3.Not(wr[m][t]), rd[m][t] == 0)
            else:
                c = z3.BoolVal(True)
            conds.append(z3.And(pc[i][t] == j, c))
        return z3.Or(*conds) if conds else z3.BoolVal(False)

    valid = []
    for t in range(N):
        step = []
        for i in range(k):
            upd = []
            for j, ev in enumerate(traces[i]):
                kind, m = ev[0], ev[1]
                eff = [pc[i][t + 1] == j + 1]
                for i2 in range(k):
                    if i2 != i:
                        eff.append(pc[i2][t + 1] == pc[i2][t])
                for m2 in mutexes:
                    r0, w0, p0 = rd[m2][t], wr[m2][t], pd[m2][t]
                    r1, w1, p1 = rd[m2][t + 1], wr[m2][t + 1], pd[m2][t + 1]
                    if m2 == m and kind == 'RL':
                        eff += [r1 == r0 + 1, w1 == w0, p1 == p0]
                    elif m2 == m and kind == 'RU':
                        eff += [r1 == r0 - 1, w1 == w0, p1 == p0]
                    elif m2 == m and kind == 'LA':
                        eff += [r1 == r0, w1 == w0, p1 == p0 + 1]
                    elif m2 == m and kind == 'L':
                        eff += [r1 == r0, w1, p1 == p0 - 1]
                    elif m2 == m and kind == 'U':
                        eff += [r1 == r0, z3.Not(w1), p1 == p0]
                    else:
                        eff += [r1 == r0, w1 == w0, p1 == p0]
                upd.append(z3.And(pc[i][t] == j, *eff))
            step.append(z3.And(sched[t] == i, enabled(i, t), z3.Or(*upd)) if upd else z3.BoolVal(False))
        valid.append(z3.Or(*step))

    def unfinished(i, t):
        return pc[i][t] < len(traces[i])

    def solve(goal_at):
        s = z3.Solver()
        s.set('timeout', timeout_ms)
        s.add(*base)
        alts = []
        for L in range(N + 1):
            alts.append(z3.And(*(valid[:L] + [goal_at(L)])))
        s.add(z3.Or(*alts))
        t0 = time.time()
        r = s.check()
        res['solver_s'] += time.time() - t0
        res['queries'] += 1
        if r == z3.sat:
            m = s.model()
            # shortest prefix that satisfies the goal
            for L in range(N + 1):
                if z3.is_true(m.eval(z3.And(*(valid[:L] + [goal_at(L)])), model_completion=True)):
                    return [m.eval(sched[t], model_completion=True).as_long() for t in range(L)]
            return []
        if r == z3.unknown:
            res['unknown'] = True
        return None

    def dead(L):
        some = z3.Or(*[unfinished(i, L) for i in range(k)])
        none_enabled = z3.And(*[z3.Not(enabled(i, L)) for i in range(k)])
        return z3.And(some, none_enabled)

    def race(L):
        alts = []
        for i in range(k):
            for j in range(i + 1, k):
                for a, ea in enumerate(traces[i]):
                    for b, eb in enumerate(traces[j]):
                        if ea[0] in ('r', 'w') and eb[0] in ('r', 'w') and ea[1] == eb[1] and 'w' in (ea[0], eb[0]):
                            alts.append(z3.And(pc[i][L] == a, pc[j][L] == b))
        return z3.Or(*alts) if alts else z3.BoolVal(False)

    res['deadlock'] = solve(dead)
    res['race'] = solve(race)
    return res


def describe(traces, ops, schedule):
    pcs = [0] * len(traces)
    lines = []
    for t in schedule:
        ev = traces[t][pcs[t]]
        lines.append('T%d(%s): %s %s @%s' % (t, ops[t], ev[0], ev[1], ev[2]))
        pcs[t] += 1
    nxt = ['T%d(%s) next: %s' % (i, ops[i], (traces[i][pcs[i]][:2] if pcs[i] < len(traces[i]) else 'finished')) for i in range(len(traces))]
    return lines + nxt


def classify(kind, traces, ops, schedule):
    """A stable class for a counterexample: for a race the object and the operation whose access is not
    protected (holds no lock, or writes under a read lock); for a deadlock the operations and the mutex."""
    pcs = [0] * len(traces)
    held = [dict() for _ in traces]
    for t in schedule:
        ev = traces[t][pcs[t]]
        if ev[0] in ('L', 'RL'):
            held[t][ev[1]] = ev[0]
        elif ev[0] in ('U', 'RU'):
            held[t].pop(ev[1], None)
        pcs[t] += 1
    if kind == 'race':
        culprits = []
        obj = None
        for i in range(len(traces)):
            if pcs[i] < len(traces[i]) and traces[i][pcs[i]][0] in ('r', 'w'):
                ev = traces[i][pcs[i]]
                obj = ev[1]
                if not held[i] or (ev[0] == 'w' and 'L' not in held[i].values()):
                    culprits.append(ops[i])
        return 'race on %s: unprotected access in %s' % (obj, '/'.join(sorted(set(culprits))) or '?')
    waiting = []
    for i in range(len(traces)):
        if pcs[i] < len(traces[i]):
            ev = traces[i][pcs[i]]
            waiting.append('%s waits for %s(%s)%s' % (ops[i], {'L': 'Lock', 'RL': 'RLock'}.get(ev[0], ev[0]), ev[1], ' while holding ' + ','.join(sorted(held[i])) if held[i] else ''))
    return 'deadlock: ' + '; '.join(sorted(waiting))
