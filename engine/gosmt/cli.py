"""Developer CLI: run one harness and print a summary."""
import sys, json, time, argparse, multiprocessing
from . import runner


def main():
    ap = argparse.ArgumentParser()
    ap.add_argument('ssa')
    ap.add_argument('harness')
    ap.add_argument('-j', type=int, default=1)
    ap.add_argument('-K', type=int, default=2)
    ap.add_argument('--panic', action='store_true')
    ap.add_argument('--max-paths', type=int, default=100000)
    ap.add_argument('--opt', action='append', default=[])
    ap.add_argument('-v', action='store_true')
    a = ap.parse_args()
    opts = {'K': a.K, 'panic_is_violation': a.panic}
    for o in a.opt:
        k, v = o.split('=', 1)
        try:
            v = int(v)
        except ValueError:
            pass
        opts[k] = v
    t0 = time.time()
    prog, errs = runner.setup(a.ssa, opts)
    print('loaded in %.1fs; init errors: %s' % (time.time() - t0, errs))
    names = [h for h in prog.harnesses if h.endswith(a.harness)]
    if not names:
        print('no harness', a.harness, prog.harnesses)
        sys.exit(2)
    pool = multiprocessing.Pool(a.j) if a.j > 1 else None
    for h in names:
        agg = runner.explore(h, opts, pool, a.max_paths)
        viol = agg.pop('violations')
        print(json.dumps({k: v for k, v in agg.items() if k not in ('funcs_run',)}, indent=1, default=str))
        print('funcs_run:', len(agg['funcs_run']))
        seen = set()
        for v in viol:
            key = (v['label'], v.get('pos'), v.get('panic'))
            if key in seen and not a.v:
                continue
            seen.add(key)
            print('VIOL', json.dumps(v, default=str)[:1500])


if __name__ == '__main__':
    main()
